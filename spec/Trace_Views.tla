---------------------------- MODULE Trace_Views ----------------------------
(* Code -> spec for C14: conversions and queries recorded from the code on seeded arc subsets of orders 1..6 and on   *)
(* matrices with an illegal arc are judged against Views.tla.                                                         *)
EXTENDS Views, TLC, Json, IOUtils
Data == JsonDeserialize(IOEnv.TRACE_FILE)
Cases == Data.cases
VARIABLES cid, verdict
vars == <<cid, verdict>>
Init == cid \in 1..Len(Cases) /\ verdict = "pending"
\* transport: c.live (1-based list of live-nucleotide lists), c.lmap = list of <<v, successors>>, c.back_lm / c.back_mx =
\* accessors (lists of 4-lists; <<>> when not computed), c.ones = list of <<u, w>> with matrix[u][w] = 1, c.verts, c.leaf = list of
\* [v, d, acc (sorted leaves from the accessor), lm (sorted leaves from the latter map)]
JudgeGraph(c) ==
  LET N == Len(c.live)
      live == LiveFn(c.live)
      A == Acc(live, N)
      accJ == [i \in 1..N |-> [jj \in 1..4 |-> A[i - 1][jj - 1]]]
      lm == Lmap(A, N)
      lmKeys == {c.lmap[i][1] : i \in 1..Len(c.lmap)}
  IN IF lmKeys # DOMAIN lm \/ Len(c.lmap) # Cardinality(lmKeys) THEN "violation:latter-map-keys"
     ELSE IF \E i \in 1..Len(c.lmap) : ToSet(c.lmap[i][2]) # ToSet(lm[c.lmap[i][1]]) \/ Len(c.lmap[i][2]) # Len(lm[c.lmap[i][1]])
          THEN "violation:latter-map-successors"
     ELSE IF c.back_lm # accJ THEN "violation:latter-map-round-trip"
     ELSE IF c.has_matrix /\ ToSet(c.ones) # {<<u, w>> \in VSet(N) \X VSet(N) : \E j \in live[u] : Succ(N, u, j) = w} THEN "violation:matrix-content"
     ELSE IF c.has_matrix /\ Len(c.ones) # Cardinality(ToSet(c.ones)) THEN "violation:matrix-content"
     ELSE IF c.has_matrix /\ c.back_mx # accJ THEN "violation:matrix-round-trip"
     ELSE IF ToSet(c.verts) # Vertices(A, N) \/ Len(c.verts) # Cardinality(Vertices(A, N)) THEN "violation:vertex-listing"
     ELSE IF \E i \in 1..Len(c.leaf) :
               LET q == c.leaf[i] want == SortedSeq(LeavesAcc(A, <<q.v>>, q.d)) IN q.acc # want \/ q.lm # want
          THEN "violation:leaf-query"
     ELSE "ok"
\* kind "illegal": c.k, c.ones (arcs of the matrix), c.outcome in {"ok", "ValueError", other}
JudgeMatrix(c) ==
  LET N == 4^c.k
      legal == \A i \in 1..Len(c.ones) : c.ones[i][2] \in {Succ(N, c.ones[i][1], j) : j \in 0..3}
  IN IF legal THEN (IF c.outcome = "ok" THEN "ok" ELSE "violation:legal-matrix-rejected")
     ELSE (IF c.outcome = "ValueError" THEN "ok" ELSE "violation:illegal-matrix-accepted")
\* kind "args": recorded outcomes of calls with questionable arguments (conformance tier)
JudgeArgs(c) ==
  IF c.fn = "leaf" THEN (IF c.outcome = LeafArgsOutcome(c.has_acc, c.has_lm) THEN "ok" ELSE "conformance:leaf-query-arguments")
  ELSE (IF c.outcome = MatrixArgsOutcome(c.nrows, c.ncols, c.min, c.max, c.maxlen) THEN "ok" ELSE "conformance:matrix-arguments")
Judge(c) == IF c.kind = "graph" THEN JudgeGraph(c) ELSE IF c.kind = "args" THEN JudgeArgs(c) ELSE JudgeMatrix(c)
Check == /\ verdict = "pending" /\ verdict' = Judge(Cases[cid])
         /\ PrintT(ToJson([cid |-> cid, verdict |-> verdict'])) /\ UNCHANGED cid
Next == Check
Spec == Init /\ [][Next]_vars
=============================================================================
