---------------------------- MODULE Score ----------------------------
(* Intersection scores (dsw.graphized.calculate_intersection_score) and arc removal (dsw.spiderweb.remove_nasty_arc)   *)
(* on the two views the code keeps: the accessor and the latter map.  Property C19.                                    *)
(* A latter map is a function from its keys (vertices with arcs) to the sequence of their successors.                  *)
EXTENDS DeBruijn

Outs(lm, u) == IF u \in DOMAIN lm THEN {lm[u][i] : i \in 1..Len(lm[u])} ELSE {}
RECURSIVE Layer(_, _, _)
Layer(lm, S, d) == IF d = 0 THEN S ELSE Layer(lm, UNION {Outs(lm, u) : u \in S}, d - 1)
\* leaf set of u: end points of the (k-1)-step walks from u, as a set
LeafTable(lm, N, k) == [u \in 0..(N - 1) |-> Layer(lm, {u}, k - 1)]
\* score of arc c -> t given the leaf table: substitution (siblings), insertion (arcs leaving t), deletion (c itself)
ScoreOfArc(lm, leaf, c, t, ins, del) ==
   FoldSet(LAMBDA t2, a : a + Cardinality(leaf[t] \cup leaf[t2]), 0, Outs(lm, c) \ {t})
   + (IF ins THEN FoldSet(LAMBDA t3, a : a + Cardinality(leaf[t] \cup leaf[t3]), 0, Outs(lm, t)) ELSE 0)
   + (IF del THEN Cardinality(leaf[t] \cup leaf[c]) ELSE 0)
ArcsOf(lm) == UNION {{<<c, t>> : t \in Outs(lm, c)} : c \in DOMAIN lm}
\* the whole matrix, accessor-shaped (N rows, 4 columns, column = successor mod 4), zero off the arcs
ScoreMatrix(lm, N, k, ins, del) ==
   LET leaf == LeafTable(lm, N, k) IN
   [c \in 0..(N - 1) |-> [j \in 0..3 |-> IF Succ(N, c, j) \in Outs(lm, c) THEN ScoreOfArc(lm, leaf, c, Succ(N, c, j), ins, del) ELSE 0]]
MaxOf(m, N) == Max({m[c][j] : c \in 0..(N - 1), j \in 0..3})
\* the two views
AccFnOfLive(live, N) == [v \in 0..(N - 1) |-> [j \in 0..3 |-> IF j \in live[v] THEN Succ(N, v, j) ELSE -1]]
LmapOfAcc(a, N) == [v \in {u \in 0..(N - 1) : \E j \in 0..3 : a[u][j] >= 0} |-> SelectSeq([j \in 1..4 |-> a[v][j - 1]], LAMBDA x : x >= 0)]
ArcsOfAcc(a, N) == {<<u, a[u][j]>> : u \in 0..(N - 1), j \in 0..3} \cap ((0..(N - 1)) \X (0..(N - 1)))
\* the update the code performs on each view when arc <<c, t>> is removed
AccRemove(a, c, t) == [a EXCEPT ![c][t % 4] = -1]
LmapRemove(lm, c, t) == LET rest == SelectSeq(lm[c], LAMBDA x : x # t) IN
                        IF rest = <<>> THEN [u \in (DOMAIN lm) \ {c} |-> lm[u]] ELSE [lm EXCEPT ![c] = rest]
=============================================================================
