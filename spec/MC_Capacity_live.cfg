CONSTANTS Source = "enum"
Patterns <- HalfPatterns
EmitOn = FALSE
SPECIFICATION FairSpec
PROPERTY Termination
CHECK_DEADLOCK FALSE
