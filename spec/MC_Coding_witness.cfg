CONSTANTS K = 1
MaxBits = 2
Patterns <- P5
Tables <- T1
Modes <- BothModes
VtLens <- Vt0
EmitOn = FALSE
EmitMod = 1
INIT Init
NEXT Next
INVARIANT Witness
CHECK_DEADLOCK FALSE
