---------------------------- MODULE MC_Filter ----------------------------
(* C12: every string up to MaxLen over {A,C,G,T,foreign} x a grid of configurations; the metamorphic theorems of the *)
(* property are invariants, and every (cfg, string, verdicts) triple is exported for replay into LocalBioFilter.     *)
EXTENDS Filter, TLC, Json
CONSTANTS MaxLen, Cfgs, EmitOn
Gcs == {<<>>, <<1, 1, 2>>, <<0, 1, 2>>, <<1, 3, 4>>, <<2, 3, 5>>, <<3, 1, 4>>, <<0, 0, 1>>, <<1, 1, 1>>}   \* incl. lo > hi, 0 and 1
MotifSets == {{}, {<<2, 1>>}, {<<0, 0>>}, {<<0, 3>>, <<1, 2, 1>>}, {<<3>>}}              \* GC; AA; AT (palindrome) + CGC; one letter
CfgsQuick == {[k |-> k, run |-> r, gc |-> g, motifs |-> ms] : k \in {2, 3}, r \in 0..3, g \in Gcs, ms \in MotifSets}
CfgsThorough == {[k |-> k, run |-> r, gc |-> g, motifs |-> ms] : k \in {2, 3, 4}, r \in 0..4,
                   g \in {<<>>, <<1, 1, 2>>, <<1, 3, 4>>, <<2, 3, 5>>}, ms \in {{}, {<<2, 1>>}, {<<0, 3>>, <<1, 2, 1>>}, {<<0, 2, 2, 1>>}}}
Strs == UNION {[1..n -> 0..4] : n \in 0..MaxLen}
VARIABLES cfg, s
Init == cfg \in Cfgs /\ s \in Strs
Next == FALSE /\ UNCHANGED <<cfg, s>>
Clean == \A i \in 1..Len(s) : s[i] \in 0..3
LastWindow == Valid(cfg, s, TRUE) = Whole(cfg, LastK(s, cfg.k))
WindowConj == (WindowDecidable(cfg) /\ Len(s) >= cfg.k) => (Whole(cfg, s) = \A w \in Windows(s, cfg.k) : WindowPredicate(cfg, w))
RevCompInv == Clean => (Whole(cfg, s) = Whole(cfg, RevComp(s)))
SubstrOfValidWindow == (WindowDecidable(cfg) /\ Len(s) = cfg.k /\ Whole(cfg, s)) =>
                          \A i \in 1..Len(s), j \in 1..Len(s) : i <= j => Whole(cfg, SubSeq(s, i, j))
\* vacuity guards (each must be violated): a valid window-long string under a decidable gc+run+motif cfg; an undecidable accepted cfg
Witness1 == ~(WindowDecidable(cfg) /\ cfg.gc # <<>> /\ cfg.run > 0 /\ cfg.motifs # {} /\ Len(s) > cfg.k /\ Whole(cfg, s))
Witness2 == ~(CtorAccepts(cfg) /\ ~WindowDecidable(cfg) /\ Len(s) >= cfg.k /\ Whole(cfg, s) # (\A w \in Windows(s, cfg.k) : Whole(cfg, w)))
Emit == (EmitOn /\ CtorAccepts(cfg)) =>
          PrintT(ToJson([k |-> cfg.k, run |-> cfg.run, gc |-> cfg.gc, motifs |-> SetToSeq(cfg.motifs), s |-> s,
                         whole |-> Whole(cfg, s), last |-> Valid(cfg, s, TRUE)]))
=============================================================================
