---------------------------- MODULE MC_Decode ----------------------------
(* Decoder outcomes on arbitrary strings (foreign characters included), graphs with dead ends and every out-degree,  *)
(* check variants.  Properties C06 (accepts exactly the walks, ValueError otherwise) and C05 (decoded value).        *)
EXTENDS Coding, TLC, Json
CONSTANTS K, MaxLen, Patterns, Patterns2, Starts, Syms, Rows, Modes, Widths, ChkKinds, EmitOn
N == 4^K
V == 0..(N - 1)
PD5 == {{}, {3}, {1, 3}, {0, 1, 2}, {0, 1, 2, 3}}
PD4 == {{3}, {1, 3}, {0, 1, 2}, {0, 1, 2, 3}}
PD16 == SUBSET (0..3)
PQ3 == {{3}, {1, 3}, {0, 1, 2, 3}}
S01 == {0, 1}
SAll == 0..3
Sym5 == 0..4
Sym4 == 0..3
R1 == {<<2, 0, 3, 1>>}
R2 == {<<0, 1, 2, 3>>, <<2, 0, 3, 1>>}
BothModes == {"normal", "fast"}
OnlyNormal == {"normal"}
W4 == {4}
W38 == {3, 8}
W26 == {2, 6}
CkAll == {"none", "right", "off", "junk"}
CkNone == {"none"}
Strs == UNION {[1..n -> Syms] : n \in 0..MaxLen}
CleanStr(s) == \A i \in 1..Len(s) : s[i] \in 0..3
ChkValue(kind, s) == IF kind = "none" THEN <<>> ELSE IF kind = "junk" THEN <<0, 4>>
                     ELSE LET c == VT(s, 3) IN IF kind = "right" THEN c ELSE [c EXCEPT ![1] = (@ + 1) % 4]
VARIABLES live, row, start, dna, mode, w, ck, d
vars == <<live, row, start, dna, mode, w, ck, d>>
Tbl == [u \in V |-> row]
Init == /\ live \in {f \in [V -> Patterns \cup Patterns2] : \A u \in V : (u < 2 => f[u] \in Patterns) /\ (u >= 2 => f[u] \in Patterns2)}
        /\ start \in Starts /\ row \in Rows /\ dna \in Strs /\ mode \in Modes /\ w \in Widths
        /\ ck \in (IF CleanStr(dna) THEN ChkKinds \ {"junk"} ELSE ChkKinds \ {"right", "off"})
        /\ d = DecInit(start)
Chk == ChkValue(ck, dna)
Step == d.ph # "done" /\ d' = DecStep(live, N, Tbl, dna, Chk, mode, w, d) /\ UNCHANGED <<live, row, start, dna, mode, w, ck>>
Next == Step
Spec == Init /\ [][Next]_vars
Walk == IsWalk(live, N, start, dna)
Accepts == Walk /\ (ck \in {"none", "right"})
Has3 == \E u \in Closure(live, N, {start}) : Cardinality(live[u]) = 3
InScope == mode = "normal" \/ (~Has3 /\ d.out # "indexerror" /\ d.carried <= w)
\* C06
AcceptIffWalk == (d.ph = "done" /\ InScope) => /\ (d.out = "ok") = Accepts
                                               /\ (d.out = "ok" => Len(d.bits) = w)
                                               /\ (d.out # "ok" => d.out = "valueerror")
CheckAgrees == (ck \in {"none", "right"}) = CheckOK(dna, Chk)
\* C05, decode half: the value of the documented digit sequence, rendered big-endian at the requested width
RECURSIVE NatBitsOf(_)
NatBitsOf(n) == IF n = 0 THEN <<>> ELSE Append(NatBitsOf(n \div 2), n % 2)
DocValue == MixedValue(DigitsAlong(live, N, Tbl, start, dna))
WalkValue == (d.ph = "done" /\ d.out = "ok" /\ mode = "normal" /\ DocValue < 2^w) =>
                d.bits = [i \in 1..(w - Len(NatBitsOf(DocValue))) |-> 0] \o NatBitsOf(DocValue)
FastValue == (d.ph = "done" /\ d.out = "ok" /\ mode = "fast" /\ InScope) =>
                LET b == FastBitsAlong(live, N, Tbl, start, dna) IN d.bits = SubSeq(b \o [i \in 1..w |-> 0], 1, w)
Witness1 == ~(d.ph = "done" /\ d.out = "ok" /\ Len(dna) = MaxLen /\ ck = "right" /\ mode = "fast")
Witness2 == ~(d.ph = "done" /\ d.out = "valueerror" /\ Walk /\ ck = "off")
Emit == (EmitOn /\ d.ph = "done") =>
          PrintT(ToJson([live |-> [i \in 1..N |-> SetToSortSeq(live[i - 1], <)], row |-> row, start |-> start, dna |-> dna, mode |-> mode,
                         w |-> w, ck |-> ck, chk |-> Chk, out |-> d.out, bits |-> d.bits, scope |-> InScope, walk |-> Walk]))
=============================================================================
