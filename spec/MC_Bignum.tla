---------------------------- MODULE MC_Bignum ----------------------------
(* C15: every canonical decimal string up to MaxDigits digits x every operand 0..9 x the four helpers, stepped one  *)
(* loop iteration per action with the refinement invariants evaluated in every intermediate state.                 *)
EXTENDS Bignum, TLC, Json
CONSTANTS MaxDigits, EmitOn
Canon == {<<0>>} \cup UNION {{s \in [1..n -> 0..9] : s[1] # 0} : n \in 1..MaxDigits}
VARIABLES op, num, b, st, pc, path
vars == <<op, num, b, st, pc, path>>
Short(o, n, bb) == \/ (o = "mul" /\ bb \in {0, 1}) \/ (o = "div" /\ (bb \in {0, 1} \/ (Len(n) = 1 /\ n[1] < bb)))
Init == /\ op \in {"add", "mul", "div", "sub"} /\ num \in Canon /\ b \in 0..9
        /\ (op = "sub" => ValueOf10(num) >= b)
        /\ pc = (IF Short(op, num, b) THEN "done" ELSE "run") /\ path = <<>>
        /\ st = CASE op = "add" -> AddInit(num, b) [] op = "mul" -> MulInit(num, b)
                  [] op = "div" -> DivInit(num, b) [] op = "sub" -> SubInit(num, b)
Done(o, s) == CASE o = "add" -> AddDone(s) [] o = "mul" -> MulDone(s) [] o = "div" -> DivDone(s) [] o = "sub" -> SubDone(s)
AddA == pc = "run" /\ op = "add" /\ ~AddDone(st) /\ st' = AddStep(st) /\ path' = Append(path, AddLabel(st)) /\ UNCHANGED <<op, num, b, pc>>
MulA == pc = "run" /\ op = "mul" /\ ~MulDone(st) /\ st' = MulStep(st) /\ path' = Append(path, MulLabel(st)) /\ UNCHANGED <<op, num, b, pc>>
DivA == pc = "run" /\ op = "div" /\ ~DivDone(st) /\ st' = DivStep(st) /\ path' = Append(path, DivLabel(st)) /\ UNCHANGED <<op, num, b, pc>>
SubA == pc = "run" /\ op = "sub" /\ ~SubDone(st) /\ st' = SubStep(st) /\ path' = Append(path, SubLabel(st)) /\ UNCHANGED <<op, num, b, pc>>
Finish == pc = "run" /\ Done(op, st) /\ pc' = "done" /\ UNCHANGED <<op, num, b, st, path>>
Next == AddA \/ MulA \/ DivA \/ SubA \/ Finish
Spec == Init /\ [][Next]_vars
V == ValueOf10(num)
Result == CASE op = "add" -> Add(num, b) [] op = "mul" -> Mul(num, b) [] op = "div" -> Div(num, b)[1] [] op = "sub" -> Sub(num, b)
Rem == IF op = "div" THEN Div(num, b)[2] ELSE 0
\* step-level refinement (inductive cores; the same formulas are discharged for unbounded values in Ind_*.tla)
StepInv == pc = "run" => CASE op = "add" -> AddInv(st) [] op = "mul" -> MulInv(st) [] op = "div" -> DivInv(st)
                           [] op = "sub" -> TRUE
\* the machine run to completion equals the one-shot operator (one source of truth)
RunAgrees == (pc = "done" /\ ~Short(op, num, b)) =>
               CASE op = "add" -> AddOut(st) = Add(num, b) [] op = "mul" -> MulOut(st) = Mul(num, b)
                 [] op = "div" -> DivOut(st) = Div(num, b) [] op = "sub" -> SubOut(st) = Sub(num, b)
\* C15 proper: canonical strings of the exact results
Exact == pc = "done" =>
           /\ IsCanon(Result)
           /\ CASE op = "add" -> ValueOf10(Result) = V + b
                [] op = "mul" -> ValueOf10(Result) = V * b
                [] op = "div" -> (b > 0 => ValueOf10(Result) = V \div b /\ Rem = V % b)
                [] op = "sub" -> ValueOf10(Result) = V - b
Bounded == Len(path) <= 2 * MaxDigits + 2
Witness == ~(pc = "done" /\ op = "sub" /\ Len(path) >= 2)      \* vacuity guard: a borrow chain of length 2 must exist
Emit == (EmitOn /\ pc = "done") => PrintT(ToJson([op |-> op, num |-> num, b |-> b, res |-> Result, rem |-> Rem, path |-> path]))
=============================================================================
