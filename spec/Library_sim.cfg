CONSTANT Depth = 14
INIT Init
NEXT Next
PROPERTY Frame
INVARIANT EmitHist
CHECK_DEADLOCK FALSE
