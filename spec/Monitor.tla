------------------------------ MODULE Monitor ------------------------------
(* The progress monitor (dsw/operation.py, class Monitor) as a state machine over a call history.  One action per call:  *)
(* the clock advances by dt seconds, then the call (current, total, extra) is made.  The object's only state is           *)
(* `last_time` (None / a time stamp): `armed` and `start` below.  The text written to stdout is modelled field by field:  *)
(* number of filled cells of the 20-cell bar, percentage, padding of the counter, label, h:m:s, suffix, newline.          *)
(* Deliberate deviation modelled as the code behaves: the percentage is int(current / total * 100) in binary floating     *)
(* point, so when total divides 100 * current the quotient may come out one below the exact value (29/100 -> 28):         *)
(* `Pcts` is the set of admissible values.  Part of the growth of the specification (DESIGN section 11): a disagreement   *)
(* is a conformance divergence of C20, the property clause "progress output never changes a result or raises" is judged   *)
(* by Trace_Library.                                                                                                      *)
EXTENDS Naturals, Sequences, FiniteSets, SequencesExt, TLC, Json
CONSTANTS Totals, Steps, KeepHist, MaxElapsed, MaxLen
VARIABLES armed, start, now, out, hist
vars == <<armed, start, now, out, hist>>

Digits(n) == IF n < 10 THEN 1 ELSE IF n < 100 THEN 2 ELSE IF n < 1000 THEN 3 ELSE 4
Min2(a, b) == IF a < b THEN a ELSE b
Exact(c, t) == (100 * c) \div t
Pcts(c, t) == IF (100 * c) % t = 0 /\ Exact(c, t) > 0 THEN {Exact(c, t) - 1, Exact(c, t)} ELSE {Exact(c, t)}
Cells(p) == Min2(20, p \div 5 + 1)                 \* |{i \in {0,5,..,95} : p >= i}|
Pad(c, t) == IF Digits(t) > Digits(c) THEN Digits(t) - Digits(c) ELSE 0
None == [printed |-> FALSE]

Output(c, t, ex, elapsed) ==
    LET done == c >= t
        secs == IF done THEN elapsed ELSE (elapsed * (t - c)) \div c
    IN [printed |-> TRUE, pcts |-> Pcts(c, t), cur |-> c, total |-> t, pad |-> Pad(c, t),
        label |-> IF done THEN "used" ELSE "wait", h |-> secs \div 3600, m |-> (secs % 3600) \div 60, s |-> secs % 60,
        suffix |-> ex, newline |-> done]

Init == armed = FALSE /\ start = 0 /\ now = 0 /\ out = None /\ hist = <<>>

Call(c, t, ex, dt) ==
    LET clock == now + dt
        st == IF armed THEN start ELSE clock        \* last_time is set on the first call after a reset
    IN /\ now' = clock
       /\ IF c = 0
          THEN /\ armed' = TRUE /\ start' = st /\ out' = None            \* silent, but arms the timer
          ELSE /\ out' = Output(c, t, ex, clock - st)
               /\ armed' = (c < t)                                       \* completion disarms: the next run restarts the timer
               /\ start' = IF c < t THEN st ELSE 0
       /\ hist' = IF KeepHist THEN Append(hist, [c |-> c, t |-> t, ex |-> ex, dt |-> dt, out |-> out',
                                                 pcts |-> IF c = 0 THEN <<>> ELSE SetToSortSeq(Pcts(c, t), <)])
                  ELSE hist

Next == \E t \in Totals : \E c \in 0..(t + 1) : \E ex \in BOOLEAN : \E dt \in Steps : Call(c, t, ex, dt)
Spec == Init /\ [][Next]_vars

Elapsed == IF armed THEN now - start ELSE 0
Bound == Elapsed <= MaxElapsed /\ Len(hist) <= MaxLen /\ (~KeepHist => now <= MaxElapsed)

TypeOK == armed \in BOOLEAN /\ start \in Nat /\ now \in Nat /\ start <= now
\* the bar is never empty and never longer than 20 cells, 100 % fills it; the label follows completion; a completed run ends the line
Shape == out.printed =>
           /\ \A p \in out.pcts : Cells(p) \in 1..20 /\ (p >= 95 => Cells(p) = 20)
           /\ (out.label = "used") = (out.cur >= out.total)
           /\ out.newline = (out.cur >= out.total)
           /\ out.m < 60 /\ out.s < 60
           /\ (out.cur >= out.total => 100 \in out.pcts \/ \E p \in out.pcts : p >= 99)
\* the object is disarmed exactly after a completing call: a second run with the same object measures its own time
Disarm == [][(out'.printed /\ hist' = hist /\ now' >= now) => (armed' = (out'.cur < out'.total))]_<<armed, start, now, out>>
\* the estimate of an unfinished run is the floor of elapsed * remaining / done, measured from the run's first call
Secs(o) == o.h * 3600 + o.m * 60 + o.s
WaitIsEstimate == [][(out'.printed /\ out'.label = "wait") =>
                       /\ Secs(out') * out'.cur <= (now' - start') * (out'.total - out'.cur)
                       /\ (now' - start') * (out'.total - out'.cur) < (Secs(out') + 1) * out'.cur]_vars
\* a "used" time is the time since the run's first call, never since an earlier run's
UsedIsThisRun == [][(out'.printed /\ out'.label = "used") =>
                      out'.h * 3600 + out'.m * 60 + out'.s = now' - (IF armed THEN start ELSE now')]_vars
\* vacuity witnesses (expected to be violated): a completed run is reached, the floating-point slack case is reached
NoCompletion == ~(out.printed /\ out.label = "used" /\ ~armed)
NoSlack == ~(out.printed /\ Cardinality(out.pcts) = 2)
Emit == (KeepHist /\ Len(hist) = MaxLen) => PrintT(ToJson([hist |-> hist]))
=============================================================================
