CONSTANTS K = 1
MaxBits = 4
Patterns <- P16
Tables <- T1
Modes <- BothModes
VtLens <- Vt0
EmitOn = TRUE
EmitMod = 16
INIT Init
NEXT Next
INVARIANT RoundTrip
INVARIANT WFAgree
INVARIANT EncTotal
INVARIANT WalkInv
INVARIANT PathShape
INVARIANT StepBound
INVARIANT DocHolds
INVARIANT DecValue
INVARIANT Emit
CHECK_DEADLOCK FALSE
