CONSTANTS Graphs <- G12q
Source = "strings"
WalkLen = 0
NEdits = 0
MaxLen = 4
Heaps <- H013
EmitOn = FALSE
SPECIFICATION FairSpec
PROPERTY Termination
CHECK_DEADLOCK FALSE
