---------------------------- MODULE BigNat ----------------------------
(* Naturals as sequences of base-2^24 limbs, most significant first (TLC integers are 32-bit).                       *)
(* Only what the coder needs: from/to bit sequences (pure regrouping), division and multiply-add by a radix 2..4.    *)
EXTENDS Naturals, Integers, Sequences, FiniteSets, SequencesExt, Functions

LW == 24
LB == 16777216
BitsVal(bs) == FoldLeft(LAMBDA acc, b : 2 * acc + b, 0, bs)
NLimbs(n) == (n + LW - 1) \div LW
FromBits(bs) == LET n == Len(bs) k == NLimbs(n) pad == k * LW - n IN
                IF n = 0 THEN <<0>> ELSE
                [i \in 1..k |-> LET lo == (i - 1) * LW + 1 - pad hi == i * LW - pad IN BitsVal(SubSeq(bs, IF lo < 1 THEN 1 ELSE lo, hi))]
IsZero(ls) == \A i \in 1..Len(ls) : ls[i] = 0
\* <<quotient limbs (same length), remainder>> for a small divisor d (d * 2^24 stays below 2^31 for d <= 64)
DivMod(ls, d) == FoldLeft(LAMBDA acc, x : LET cur == acc[2] * LB + x IN <<Append(acc[1], cur \div d), cur % d>>, << <<>>, 0 >>, ls)
\* ls * d + a for small d, a
MulAdd(ls, d, a) ==
  LET r == FoldRight(LAMBDA x, acc : LET cur == x * d + acc[2] IN << <<cur % LB>> \o acc[1], cur \div LB >>, ls, << <<>>, a >>)
  IN IF r[2] > 0 THEN <<r[2]>> \o r[1] ELSE r[1]
\* all bits of the limbs, most significant first (24 per limb)
LimbBits(x) == [i \in 1..LW |-> (x \div 2^(LW - i)) % 2]
AllBits(ls) == FoldLeft(LAMBDA acc, x : acc \o LimbBits(x), <<>>, ls)
StripZeros(bs) == LET nz == {i \in 1..Len(bs) : bs[i] # 0} IN
                  IF nz = {} THEN <<>> ELSE SubSeq(bs, CHOOSE i \in nz : \A j \in nz : i <= j, Len(bs))
NatBits(ls) == StripZeros(AllBits(ls))          \* binary digits without leading zeros (<<>> for zero)
\* number_to_bit: pad on the left to width w, or keep the first w bits when the number is too long
ToBitsW(ls, w) == LET b == NatBits(ls) IN IF Len(b) <= w THEN [i \in 1..(w - Len(b)) |-> 0] \o b ELSE SubSeq(b, 1, w)
\* comparison of two limb numbers
StripLimbs(ls) == LET nz == {i \in 1..Len(ls) : ls[i] # 0} IN
                  IF nz = {} THEN <<0>> ELSE SubSeq(ls, CHOOSE i \in nz : \A j \in nz : i <= j, Len(ls))
RECURSIVE LexLeq(_, _)
LexLeq(a, b) == a = <<>> \/ Head(a) < Head(b) \/ (Head(a) = Head(b) /\ LexLeq(Tail(a), Tail(b)))
Leq(x, y) == LET a == StripLimbs(x) b == StripLimbs(y) IN Len(a) < Len(b) \/ (Len(a) = Len(b) /\ LexLeq(a, b))
\* small values (used by the model-checking scopes to state properties against Nat)
ValueSmall(ls) == FoldLeft(LAMBDA acc, x : acc * LB + x, 0, ls)
=============================================================================
