CONSTANTS Cfgs <- NoCfgs
KMask = 1
MaskMod = 1
MaxBits = 3
Modes <- BothModes
EmitOn = FALSE
SPECIFICATION FairSpec
PROPERTY Termination
CHECK_DEADLOCK FALSE
