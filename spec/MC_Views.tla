---------------------------- MODULE MC_Views ----------------------------
(* C14 on every arc subset of the order-K de Bruijn graph whose per-vertex live sets come from Patterns.             *)
EXTENDS Views, TLC, Json
CONSTANTS K, MaxDepth, Patterns, EmitOn
N == 4^K
V == VSet(N)
AllPatterns == SUBSET (0..3)
HalfPatterns == {{}, {0}, {3}, {1, 2}, {0, 3}, {0, 1, 2}, {1, 2, 3}, {0, 1, 2, 3}}
VARIABLES live, ph
Init == live \in [V -> Patterns] /\ ph = 0
Next == ph = 0 /\ ph' = 1 /\ UNCHANGED live
A == Acc(live, N)
RoundTrips == /\ AccOfLmap(Lmap(A, N), N) = A
              /\ AccOfMatrix(Matrix(A, N), N) = A /\ Legal(Matrix(A, N), N)
              /\ LiveOf(A, N) = live
Contents == /\ DOMAIN Lmap(A, N) = {v \in V : live[v] # {}}
            /\ \A v \in DOMAIN Lmap(A, N) : Lmap(A, N)[v] = [i \in 1..Cardinality(live[v]) |-> Succ(N, v, SetToSortSeq(live[v], <)[i])]
            /\ \A u \in V, w \in V : Matrix(A, N)[u][w] = 1 <=> \E j \in live[u] : Succ(N, u, j) = w
            /\ Vertices(A, N) = {v \in V : live[v] # {}}
LeavesAgree == \A v \in V, d \in 0..MaxDepth :
                 LET la == LeavesAcc(A, <<v>>, d) ll == LeavesLm(Lmap(A, N), <<v>>, d) IN
                 /\ BagOfSeq(la) = BagOfSeq(ll)
                 /\ \A w \in V : Cardinality({i \in 1..Len(la) : la[i] = w}) = Walks(live, N, v, w, d)
Witness == ~(ph = 1 /\ Cardinality(Vertices(A, N)) = 3 /\ Len(LeavesAcc(A, <<0>>, MaxDepth)) > 4)
Emit == (EmitOn /\ ph = 1) =>
   PrintT(ToJson([live |-> [i \in 1..N |-> SetToSortSeq(live[i - 1], <)],
                  lmap |-> [i \in 1..N |-> IF (i - 1) \in DOMAIN Lmap(A, N) THEN Lmap(A, N)[i - 1] ELSE <<>>],
                  verts |-> SetToSortSeq(Vertices(A, N), <),
                  matrix |-> [i \in 1..N |-> [jj \in 1..N |-> Matrix(A, N)[i - 1][jj - 1]]],
                  leaves |-> [i \in 1..N |-> [dd \in 1..(MaxDepth + 1) |-> SortedSeq(LeavesAcc(A, <<i - 1>>, dd - 1))]]]))
=============================================================================
