---------------------------- MODULE MC_Generate ----------------------------
(* C03: every vertex mask of the order-K de Bruijn graph x threshold 1..4, trimmed one round per action.             *)
EXTENDS Generate, TLC, Json
CONSTANTS K, MaxBrute, CheckMono, EmitOn
N == 4^K
V == 0..(N - 1)
VARIABLES mask, t, cur, rnd, pc
vars == <<mask, t, cur, rnd, pc>>
Init == /\ mask \in SUBSET V /\ t \in 1..4 /\ cur = mask /\ rnd = 0 /\ pc = "trim"
Trim == /\ pc = "trim"
        /\ LET nxt == Keep(N, cur, t) IN
           IF nxt = {} THEN pc' = "error" /\ cur' = {} /\ rnd' = rnd + 1
           ELSE IF nxt = cur THEN pc' = (IF t = 1 THEN "cycles" ELSE "done") /\ UNCHANGED <<cur, rnd>>
           ELSE cur' = nxt /\ rnd' = rnd + 1 /\ pc' = "trim"
        /\ UNCHANGED <<mask, t>>
Cycles == /\ pc = "cycles"
          /\ LET good == BackReachV(N, BranchingV(N, cur), cur) IN
             IF good = {} THEN pc' = "error" /\ cur' = {} /\ rnd' = rnd
             ELSE IF good = cur THEN pc' = "done" /\ UNCHANGED <<cur, rnd>>
             ELSE cur' = Fix(N, good, 1) /\ pc' = (IF Fix(N, good, 1) = {} THEN "error" ELSE "cycles") /\ rnd' = rnd + 1
          /\ UNCHANGED <<mask, t>>
Next == Trim \/ Cycles
Spec == Init /\ [][Next]_vars
\* liveness form of C03's fixed point: trimming always ends (graph or error)
FairSpec == Spec /\ WF_vars(Next)
Term == pc \in {"done", "error"}
Termination == <>Term
DoneClosed == pc = "done" => Closed(N, cur, t) /\ cur \subseteq mask /\ cur # {}
Removed == [][\A v \in cur \ cur' : pc = "trim" => Cardinality(SuccSet(N, v) \cap cur) < t]_vars
RoundBound == rnd <= Cardinality(mask) + 1
MachineIsOperator == Term => cur = CodingSet(N, mask, t)
ErrorIffEmpty == Term => ((pc = "error") = (CodingSet(N, mask, t) = {}))
Maximal == (Term /\ Cardinality(mask) <= MaxBrute) => IsLargestClosed(N, cur, mask, t)
MonotoneStep == (Term /\ CheckMono) => \A v \in mask : CodingSet(N, mask \ {v}, t) \subseteq cur
TwinAgrees == (Term /\ t >= 2) => LET lm == RemoveUseless(LmapOfSet(N, mask), t) IN
                                   /\ DOMAIN lm = cur /\ LiveOfLmap(N, lm) = LiveOfSet(N, cur)
HasArcsIsAll == pc = "done" => HasArcs(N, cur) = cur
Witness == ~(pc = "done" /\ t = 1 /\ cur # Fix(N, mask, 1))      \* cycle removal changed something and a graph remains
Emit == (EmitOn /\ Term) => PrintT(ToJson([m |-> SetToSortSeq(mask, <), t |-> t, r |-> SetToSortSeq(cur, <)]))
=============================================================================
