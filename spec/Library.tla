---------------------------- MODULE Library ----------------------------
(* API grain of DNASpiderWeb: a workspace of shared objects and one action per public function.  Property C20:        *)
(* every call is a function of its arguments (and of the seed, for the two randomised calls), leaves every argument    *)
(* unchanged - arc removal, documented to work in place, excepted - and progress output changes nothing.              *)
(* The specification does not compute results; it fixes what may change and what a result may depend on.  It is used   *)
(* (a) to generate call sequences over shared objects with `tlc -simulate`, (b) through Trace_Library to judge the     *)
(* logs of those sequences executed on the real library.                                                              *)
EXTENDS Naturals, Sequences, FiniteSets, TLC, Json

Slots == {"A1", "A2", "M1", "M2", "T1", "K1", "L1", "F1", "X1"}      \* accessors, messages, table, mask, latter map, filter, matrix
\* fn -> slots it reads; scalar parameter domain (small); whether it accepts verbose; whether it is randomised
Fns == {
  [fn |-> "encode",                        args |-> <<"M", "A", "T">>, verbose |-> TRUE,  params |-> {"normal", "fast", "normal+vt", "normal+path"}],
  [fn |-> "decode",                        args |-> <<"M", "A", "T">>, verbose |-> TRUE,  params |-> {"normal", "fast", "normal+vt"}],
  [fn |-> "set_vt",                        args |-> <<"M", "A">>,      verbose |-> FALSE, params |-> {"n=3", "n=40"}],
  [fn |-> "repair_dna",                    args |-> <<"M", "A">>,      verbose |-> FALSE, params |-> {"indel", "subs", "indel+vt"}],
  [fn |-> "path_matching",                 args |-> <<"M", "A">>,      verbose |-> FALSE, params |-> {"indel", "subs"}],
  [fn |-> "find_vertices",                 args |-> <<"F">>,           verbose |-> TRUE,  params |-> {"-"}],
  [fn |-> "filter_valid",                  args |-> <<"F", "M", "A">>, verbose |-> FALSE, params |-> {"last", "whole"}],
  [fn |-> "connect_valid_graph",           args |-> <<"K">>,           verbose |-> TRUE,  params |-> {"-"}],
  [fn |-> "connect_coding_graph",          args |-> <<"K">>,           verbose |-> TRUE,  params |-> {"t=1", "t=2", "t=3"}],
  [fn |-> "create_random_shuffles",        args |-> <<>>,              verbose |-> TRUE,  params |-> {"k=2,seed=7", "k=2,seed=8", "k=3,seed=7", "k=2,seed=0"}],
  [fn |-> "get_complete_accessor",         args |-> <<>>,              verbose |-> TRUE,  params |-> {"k=1", "k=2", "k=3"}],
  [fn |-> "accessor_to_adjacency_matrix",  args |-> <<"A">>,           verbose |-> TRUE,  params |-> {"-"}],
  [fn |-> "adjacency_matrix_to_accessor",  args |-> <<"X">>,           verbose |-> TRUE,  params |-> {"-"}],
  [fn |-> "accessor_to_latter_map",        args |-> <<"A">>,           verbose |-> TRUE,  params |-> {"-"}],
  [fn |-> "latter_map_to_accessor",        args |-> <<"L">>,           verbose |-> TRUE,  params |-> {"none", "t=1", "t=2", "t=3"}],
  [fn |-> "remove_useless",                args |-> <<"L">>,           verbose |-> TRUE,  params |-> {"t=1", "t=2", "t=3"}],
  [fn |-> "obtain_vertices",               args |-> <<"A">>,           verbose |-> FALSE, params |-> {"-"}],
  [fn |-> "obtain_leaf_vertices",          args |-> <<"A", "L">>,      verbose |-> FALSE, params |-> {"acc,d=2", "lmap,d=2", "acc,d=0"}],
  [fn |-> "obtain_formers_latters",        args |-> <<>>,              verbose |-> FALSE, params |-> {"v=5,k=2", "v=63,k=3"}],
  [fn |-> "approximate_capacity",          args |-> <<"A">>,           verbose |-> TRUE,  params |-> {"repeats=1", "repeats=3,seed=5", "repeats=1,process"}],
  [fn |-> "calculate_intersection_score",  args |-> <<"L">>,           verbose |-> TRUE,  params |-> {"ins,del", "none"}],
  [fn |-> "remove_nasty_arc",              args |-> <<"A", "L">>,      verbose |-> TRUE,  params |-> {"ins,del", "del"}],
  [fn |-> "calculus",                      args |-> <<>>,              verbose |-> FALSE, params |-> {"add", "sub", "mul", "div"}],
  [fn |-> "conversions",                   args |-> <<"M">>,           verbose |-> TRUE,  params |-> {"bits,str", "bits,int", "dna,str", "dna,int"}]
}
InPlace(fn) == fn = "remove_nasty_arc"
SlotsOfKind(k) == IF k = "A" THEN {"A1", "A2"} ELSE IF k = "M" THEN {"M1", "M2"} ELSE IF k = "T" THEN {"T1"} ELSE IF k = "K" THEN {"K1"}
                  ELSE IF k = "L" THEN {"L1"} ELSE IF k = "F" THEN {"F1"} ELSE {"X1"}
\* remove_nasty_arc needs the two views of the same graph: L1 is the latter map of A1
ArgChoices(f) == {s \in [1..Len(f.args) -> Slots] : (\A i \in 1..Len(f.args) : s[i] \in SlotsOfKind(f.args[i]))
                                                   /\ (f.fn \in {"remove_nasty_arc", "obtain_leaf_vertices"} => s[1] = "A1")}

VARIABLES ver, hist
vars == <<ver, hist>>
Init == ver = [s \in Slots |-> 0] /\ hist = <<>>
Call(f, slots, p, vb) ==
  /\ hist' = Append(hist, [fn |-> f.fn, slots |-> slots, param |-> p, verbose |-> vb])
  /\ ver' = IF InPlace(f.fn) THEN [s \in Slots |-> IF s \in {slots[i] : i \in 1..Len(slots)} THEN ver[s] + 1 ELSE ver[s]] ELSE ver
Next == \E f \in Fns : \E p \in f.params, vb \in BOOLEAN : (vb => f.verbose) /\ \E slots \in ArgChoices(f) : Call(f, slots, p, vb)
Spec == Init /\ [][Next]_vars
\* C20 as action properties of the design
Frame == [][\A s \in Slots : ver'[s] # ver[s] => InPlace(hist'[Len(hist')].fn) /\ s \in {hist'[Len(hist')].slots[i] : i \in 1..Len(hist'[Len(hist')].slots)}]_vars
\* a call's signature: everything its result may depend on (not the verbose flag, not the history)
Sig(e, v) == <<e.fn, e.param, [i \in 1..Len(e.slots) |-> <<e.slots[i], v[e.slots[i]]>>]>>
CONSTANT Depth
EmitHist == (Len(hist) = Depth) => PrintT(ToJson([hist |-> hist]))
Bound == Len(hist) <= Depth
=============================================================================
