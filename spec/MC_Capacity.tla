---------------------------- MODULE MC_Capacity ----------------------------
(* C17 on the integer model: every order-1 arc subset whose per-vertex live sets come from Patterns, or the graphs of a   *)
(* JSON file proposed by the harness (orders 1..3); one machine step per action.                                         *)
EXTENDS Capacity, Json, IOUtils
CONSTANTS Source, Patterns, EmitOn
AllPatterns == SUBSET (0..3)
HalfPatterns == {{}, {0}, {3}, {1, 2}, {0, 3}, {0, 1, 2}, {1, 2, 3}, {0, 1, 2, 3}}
Data == IF Source = "file" THEN JsonDeserialize(IOEnv.TRACE_FILE) ELSE [graphs |-> <<>>]
VARIABLES gid, st
vars == <<gid, st>>
\* the uniform-pattern family: every vertex of the order-k graph keeps the same non-empty nucleotide set P; it is |P|-regular
Init == \/ (Source = "uniform" /\ \E k \in 1..5, P \in (SUBSET (0..3)) \ {{}} : gid = 100 * k + FoldSet(LAMBDA j, a : a + 2^j, 0, P)
                                                                              /\ st = CapInitLight([v \in 0..(4^k - 1) |-> P], 4^k))
        \/ (Source = "enum" /\ gid = 0 /\ \E live \in [0..3 -> Patterns] : st = CapInit(live, 4))
        \/ (Source = "file" /\ gid \in 1..Len(Data.graphs) /\ st = CapInit(LiveFn(Data.graphs[gid]), Len(Data.graphs[gid])))
Next == st.ph # "done" /\ st' = CapStep(st) /\ UNCHANGED gid
Spec == Init /\ [][Next]_vars
\* liveness form of C17's termination clause: the estimation machine always reaches its final phase
FairSpec == Spec /\ WF_vars(Next)
Termination == <>(st.ph = "done")
Le4 == EstimatesLe4(st)
RegExact == RegularExact(st)
UniformIsRegular == (Source = "uniform" /\ st.ph # "scc") => st.reg = Cardinality(st.out[0])
CwOk == CwOrdered(st)
LoUp == [][(st.ph = "cw" /\ st'.ph \in {"cw", "done"} /\ st.n >= 2) => MulGe(st'.lo[1], st.lo[2], st.lo[1], st'.lo[2])]_vars
HiDown == [][(st.ph = "cw" /\ st'.ph \in {"cw", "done"} /\ st.n >= 2) => MulGe(st.hi[1], st'.hi[2], st'.hi[1], st.hi[2])]_vars
ArcLessZero == (st.alive = {} /\ st.ph = "done") => \A i \in 1..Len(st.est) : st.est[i][1] = 0
Witness == ~(st.ph = "done" /\ st.res = "certified" /\ st.reg = -1 /\ st.prem[3] > 0)
Emit == (EmitOn /\ st.ph = "done") =>
          PrintT(ToJson([gid |-> gid, live |-> [i \in 1..st.N |-> SetToSortSeq({j \in 0..3 : Succ(st.N, i - 1, j) \in st.out[i - 1]}, <)],
                         res |-> st.res, reg |-> st.reg, m |-> st.m, csize |-> Cardinality(st.C), lo |-> st.lo, hi |-> st.hi,
                         prem |-> st.prem, nest |-> Len(st.est), last |-> st.est[Len(st.est)], est |-> st.est, arcless |-> (st.alive = {})]))
=============================================================================
