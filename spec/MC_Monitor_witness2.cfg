SPECIFICATION Spec
CONSTANTS
  Totals = {1, 3}
  Steps = {0, 61}
  KeepHist = FALSE
  MaxElapsed = 200
  MaxLen = 0
CONSTRAINT Bound
INVARIANT NoSlack
CHECK_DEADLOCK FALSE
