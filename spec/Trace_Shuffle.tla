---------------------------- MODULE Trace_Shuffle ----------------------------
(* Code -> spec for C18: shuffle tables recorded from create_random_shuffles (shape, reproducibility over histories   *)
(* of calls interleaved with other users of the global random state, earlier results left alone).                    *)
EXTENDS Coding, TLC, Json, IOUtils
Data == JsonDeserialize(IOEnv.TRACE_FILE)
Cases == Data.cases
VARIABLES cid, verdict
vars == <<cid, verdict>>
Init == cid \in 1..Len(Cases) /\ verdict = "pending"
TableOK(T, k) == Len(T) = 4^k /\ \A i \in 1..Len(T) : IsPerm(T[i])
\* kind "table": k, seed, out, table
\* kind "hist": events = list of [k, seed, tid (index into tables), intact (all earlier results still equal their snapshots),
\*              other (an unrelated consumer of the global random state ran before this call)], tables = list of tables
JudgeHist(c) ==
  LET ev == c.events IN
  IF \E i \in 1..Len(ev) : ~TableOK(c.tables[ev[i].tid], ev[i].k) THEN "violation:table-shape"
  ELSE IF \E i \in 1..Len(ev), j \in 1..Len(ev) : ev[i].k = ev[j].k /\ ev[i].seed = ev[j].seed /\ c.tables[ev[i].tid] # c.tables[ev[j].tid]
       THEN "violation:same-seed-different-table"
  ELSE IF \E i \in 1..Len(ev) : ~ev[i].intact THEN "violation:earlier-result-modified"
  ELSE "ok"
Judge(c) == IF c.kind = "table" THEN (IF c.out # "ok" THEN "violation:raises" ELSE IF TableOK(c.table, c.k) THEN "ok" ELSE "violation:table-shape")
            ELSE JudgeHist(c)
Check == /\ verdict = "pending" /\ verdict' = Judge(Cases[cid])
         /\ PrintT(ToJson([cid |-> cid, verdict |-> verdict'])) /\ UNCHANGED cid
Next == Check
Spec == Init /\ [][Next]_vars
=============================================================================
