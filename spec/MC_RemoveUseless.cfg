INIT Init
NEXT Next
INVARIANT IsGfp
INVARIANT MachineIsOperator
INVARIANT RoundBound
INVARIANT Emit
CHECK_DEADLOCK FALSE
