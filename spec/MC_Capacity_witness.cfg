CONSTANTS Source = "enum"
Patterns <- HalfPatterns
EmitOn = FALSE
INIT Init
NEXT Next
INVARIANT Witness
CHECK_DEADLOCK FALSE
