---------------------------- MODULE DeBruijn ----------------------------
(* Vocabulary of the order-k de Bruijn graph over {A,C,G,T} = 0..3 as DNASpiderWeb uses it:                  *)
(* vertex indices are base-4 values of k-mers, arcs are shift-append.  Everything else in the specification *)
(* is written on top of this module.  (Property C13.)                                                        *)
EXTENDS Naturals, Integers, Sequences, FiniteSets, SequencesExt, FiniteSetsExt, Functions

Nt == 0..3
Pow4(k) == 4^k

RECURSIVE Kmer(_, _)
Kmer(v, k) == IF k = 0 THEN <<>> ELSE Append(Kmer(v \div 4, k - 1), v % 4)     \* index -> k-mer (big-endian)
ValueOf(s) == FoldLeft(LAMBDA acc, d : 4 * acc + d, 0, s)                       \* k-mer -> index

\* arithmetic forms (what the code computes)
Succ(N, v, j) == (4 * v + j) % N
SuccA(v, j, k) == (4 * v + j) % (4^k)
PredA(v, f, k) == v \div 4 + f * 4^(k - 1)
\* string forms (what the documentation says)
SuccS(v, j, k) == ValueOf(Tail(Kmer(v, k)) \o <<j>>)
PredS(v, f, k) == ValueOf(<<f>> \o SubSeq(Kmer(v, k), 1, k - 1))

SuccList(v, k) == [j \in 1..4 |-> SuccS(v, j - 1, k)]
PredList(v, k) == [f \in 1..4 |-> PredS(v, f - 1, k)]

\* ---- graphs as arc subsets: live[v] = set of live nucleotides of vertex v (v in 0..N-1) ----
LiveFn(g) == [v \in 0..(Len(g) - 1) |-> ToSet(g[v + 1])]        \* from the JSON transport form (1-based list of lists)
OrderOf(N) == CHOOSE k \in 0..15 : 4^k = N

\* an accessor (JSON transport: 1-based list of 4-lists) is well formed iff column j holds -1 or the j-th successor
WellFormedAccessor(acc) ==
  LET N == Len(acc) IN
  /\ \E k \in 1..15 : 4^k = N
  /\ \A v \in 0..(N - 1) : Len(acc[v + 1]) = 4 /\ \A j \in 0..3 : acc[v + 1][j + 1] \in {-1, Succ(N, v, j)}
LiveOfAcc(acc) == [v \in 0..(Len(acc) - 1) |-> {j \in 0..3 : acc[v + 1][j + 1] >= 0}]
AccOfLive(live, N) == [i \in 1..N |-> [jj \in 1..4 |-> IF (jj - 1) \in live[i - 1] THEN Succ(N, i - 1, jj - 1) ELSE -1]]

RECURSIVE IsWalk(_, _, _, _)
IsWalk(live, N, u, s) == s = <<>> \/ (Head(s) \in live[u] /\ IsWalk(live, N, Succ(N, u, Head(s)), Tail(s)))
RECURSIVE EndOf(_, _, _)
EndOf(N, u, s) == IF s = <<>> THEN u ELSE EndOf(N, Succ(N, u, Head(s)), Tail(s))

RECURSIVE Closure(_, _, _)
Closure(live, N, S) == LET S2 == S \cup UNION {{Succ(N, u, j) : j \in live[u]} : u \in S} IN
                       IF S2 = S THEN S ELSE Closure(live, N, S2)
BranchingOf(live, N) == {u \in 0..(N - 1) : Cardinality(live[u]) >= 2}
\* the precondition of C01: every reachable vertex has an out-arc and can reach a branching vertex
WellFormedFrom(live, N, s) == \A u \in Closure(live, N, {s}) :
                                 live[u] # {} /\ Closure(live, N, {u}) \cap BranchingOf(live, N) # {}
\* the same precondition computed with one backward closure (cheap on large graphs; TLC checks the two agree)
PredSetIn(live, N, T) == {u \in 0..(N - 1) : \E j \in live[u] : Succ(N, u, j) \in T}
RECURSIVE BackReach(_, _, _)
BackReach(live, N, T) == LET T2 == T \cup PredSetIn(live, N, T) IN IF T2 = T THEN T ELSE BackReach(live, N, T2)
WellFormedFast(live, N, s) == LET R == Closure(live, N, {s}) IN
                              /\ R \subseteq BackReach(live, N, BranchingOf(live, N)) /\ \A u \in R : live[u] # {}
NoDeg3From(live, N, s) == \A u \in Closure(live, N, {s}) : Cardinality(live[u]) # 3

\* ---- the statements of C13 for one order ----
C13At(k, v) ==
  /\ ValueOf(Kmer(v, k)) = v /\ Len(Kmer(v, k)) = k /\ \A i \in 1..k : Kmer(v, k)[i] \in Nt
  /\ \A j \in Nt : SuccA(v, j, k) = SuccS(v, j, k) /\ PredA(v, j, k) = PredS(v, j, k)
  /\ \A j \in Nt : v \in {PredA(SuccA(v, j, k), f, k) : f \in Nt}
  /\ \A f \in Nt : v \in {SuccA(PredA(v, f, k), j, k) : j \in Nt}
  /\ \A u \in {PredA(v, f, k) : f \in Nt} : v \in {SuccA(u, j, k) : j \in Nt}
=============================================================================
