CONSTANTS Cfgs <- Cfgs23
KMask = 2
MaskMod = 0
MaxBits = 3
Modes <- BothModes
EmitOn = TRUE
INIT Init
NEXT Next
INVARIANT EveryWindowValid
INVARIANT OnlyRetained
INVARIANT VertexIsWindow
INVARIANT LocalToGlobal
INVARIANT RetainedAreValid
INVARIANT EncTotal
INVARIANT WalkInv
INVARIANT StepBound
INVARIANT LastIsBranching
INVARIANT TightNormal
INVARIANT TightFast
INVARIANT Emit
CHECK_DEADLOCK FALSE
