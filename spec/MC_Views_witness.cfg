CONSTANTS K = 1
MaxDepth = 3
Patterns <- HalfPatterns
EmitOn = FALSE
INIT Init
NEXT Next
INVARIANT Witness
CHECK_DEADLOCK FALSE
