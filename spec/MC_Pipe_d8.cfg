CONSTANTS Cfgs <- Cfgs2
KMask = 2
MaskMod = 0
MaxBits = 2
Modes <- BothModes
EmitOn = FALSE
INIT Init
NEXT Next
INVARIANT NonDecidableCanBreak
CHECK_DEADLOCK FALSE
