CONSTANTS K = 1
MaxLen = 2
Patterns <- PD5
Patterns2 <- PQ3
Starts <- S01
Syms <- Sym5
Rows <- R1
Modes <- BothModes
Widths <- W4
ChkKinds <- CkAll
EmitOn = FALSE
INIT Init
NEXT Next
INVARIANT Witness2
CHECK_DEADLOCK FALSE
