---------------------------- MODULE Trace_Repair ----------------------------
(* Code -> spec for C08, C09, C10: recorded repair_dna calls (graphs of orders 1..4, strands to 200 nt, edit scripts,   *)
(* checks, indel on/off, heap limits) are judged on their recorded outcome and compared with the repair machine.       *)
EXTENDS Repair, TLC, Json, IOUtils
Data == JsonDeserialize(IOEnv.TRACE_FILE)
Gs == Data.graphs              \* [k, live]
Cases == Data.cases
Lives == [i \in 1..Len(Gs) |-> LiveFn(Gs[i].live)]
VARIABLES cid, verdict
vars == <<cid, verdict>>
Init == cid \in 1..Len(Cases) /\ verdict = <<>>
EditOf(e) == <<e.op, e.pos, e.sym>>
\* c: g, start, dna, vt, indel, heap (-1 = unrestricted), w (<<>> when the input is not an edited walk), es (list of [op, pos, sym]),
\*    out, cands, det, flag, count, visited, ticks, shape (the call returned a (list of strings, 4-tuple) pair)
\* kind "pm": one recorded path_matching call: c.chunk, c.prev, c.occ, c.indel, c.records = list of [kind, pos, nt, s], c.visited
JudgePm(c) ==
  LET live == Lives[c.g]  k == Gs[c.g].k  N == 4^k
      want == PathMatchRecords(live, N, c.chunk, c.prev, c.occ, c.indel)
      got == [i \in 1..Len(c.records) |-> <<c.records[i].kind, c.records[i].pos, c.records[i].nt, c.records[i].s>>]
  IN IF got # want THEN <<"conformance:path_matching-records">>
     ELSE IF c.visited # PathMatch(live, N, c.chunk, c.prev, c.occ, c.indel).visited THEN <<"conformance:path_matching-visited">>
     ELSE <<>>
JudgeRepair(c) ==
  LET live == Lives[c.g]  k == Gs[c.g].k  N == 4^k  n == Len(c.dna)
      walk == IsWalk(live, N, c.start, c.dna)
      es == [i \in 1..Len(c.es) |-> EditOf(c.es[i])]
      edited == c.w # <<>> /\ es # <<>> /\ IsWalk(live, N, c.start, c.w) /\ Admissible(c.w, es, k) /\ ApplyAll(c.w, es) = c.dna
                /\ c.heap = -1 /\ (c.indel \/ \A i \in 1..Len(es) : es[i][1] = "S")
      spec == RepairOp(live, N, k, c.dna, c.start, c.vt, c.indel, c.heap)
  IN IF n < k THEN <<"precondition-false">>
     ELSE IF c.out = "budget" THEN <<"termination-bound">>
     ELSE IF c.out # "ok" THEN <<"raises">>
     ELSE IF ~c.shape THEN <<"malformed-result">>
     ELSE (IF c.ticks > n THEN <<"termination-bound">> ELSE <<>>)
       \o (IF c.visited > n + n * 16 * k * k THEN <<"lookup-bound">> ELSE <<>>)
       \o (IF walk /\ (c.det # 0 \/ c.cands # (IF VtOk(c.dna, c.vt) THEN <<c.dna>> ELSE <<>>)) THEN <<"clean-strand-not-left-alone">> ELSE <<>>)
       \o (IF ~StrictlySorted(c.cands) THEN <<"not-sorted-unique">> ELSE <<>>)
       \o (IF \E i \in 1..Len(c.cands) : ~VtOk(c.cands[i], c.vt) THEN <<"candidate-fails-check">> ELSE <<>>)
       \o (IF edited /\ c.det = Len(es) /\ c.w \notin ToSet(c.cands) THEN <<"original-not-recovered">> ELSE <<>>)
       \o (IF edited /\ Len(es) = 1 /\ ((c.det >= 1) # ~walk) THEN <<"detection-iff-not-walk">> ELSE <<>>)
       \o (IF c.w # <<>> /\ ~edited THEN <<"note:edit-set-not-admissible">> ELSE <<>>)
       \o (IF "tl" \in DOMAIN c /\ c.tl # <<>> /\ c.tl # ScanLog(live, N, k, c.dna, ScanInit(c.start, n), <<>>)
           THEN <<"conformance:scan-ticks">> ELSE <<>>)
       \* conformance with the machine's full result - skipped when the recorded candidate product is large (re-enumerating hundreds of
       \* thousands of candidates in TLC takes minutes; the property clauses above are judged on the recorded output either way)
       \o (IF c.count > 3000 \/ Len(c.cands) > 3000 THEN <<>>
           ELSE IF <<c.cands, c.det>> # <<spec.cands, spec.det>> THEN <<"conformance:result-differs-from-machine">>
           ELSE IF <<c.flag, c.count, c.visited>> # <<spec.flag, spec.count, spec.visited>> THEN <<"conformance:statistics-differ">> ELSE <<>>)
Judge(c) == IF "kind" \in DOMAIN c /\ c.kind = "pm" THEN JudgePm(c) ELSE JudgeRepair(c)
Check == /\ verdict = <<>> /\ verdict' = (LET v == Judge(Cases[cid]) IN IF v = <<>> THEN <<"ok">> ELSE v)
         /\ PrintT(ToJson([cid |-> cid, verdict |-> verdict'])) /\ UNCHANGED cid
Next == Check
Spec == Init /\ [][Next]_vars
=============================================================================
