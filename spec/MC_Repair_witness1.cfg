CONSTANTS Graphs <- G2Quick
Source = "edits"
WalkLen = 7
NEdits = 1
MaxLen = 0
Heaps <- H0
EmitOn = FALSE
INIT Init
NEXT Next
INVARIANT Witness1
CHECK_DEADLOCK FALSE
