CONSTANTS Graphs <- G12q
Source = "strings"
WalkLen = 0
NEdits = 0
MaxLen = 6
Heaps <- H013
EmitOn = TRUE
INIT Init
NEXT Next
INVARIANT Recovers
INVARIANT DetectsIffNotWalk
INVARIANT CleanLeftAlone
INVARIANT SortedUnique
INVARIANT CheckConsistent
PROPERTY ScanAdvances
INVARIANT TickBound
INVARIANT LookupBound
INVARIANT OperatorAgrees
INVARIANT Emit
CHECK_DEADLOCK FALSE
