---------------------------- MODULE Filter ----------------------------
(* The local biochemical-constraint filter (dsw.biofilter.LocalBioFilter), property C12.                             *)
(* Symbols 0..3 = A C G T, 4 = any foreign character.                                                                *)
(* cfg = [k |-> window, run |-> max homopolymer run (0 = none), gc |-> <<>> (none) or <<lo, hi, den>> meaning         *)
(*        lo/den <= GC fraction <= hi/den, motifs |-> set of undesired motifs (sequences over 0..3)]                 *)
EXTENDS Naturals, Integers, Sequences, FiniteSets, SequencesExt, FiniteSetsExt, Functions

Occurs(m, s) == \E i \in 0..(Len(s) - Len(m)) : SubSeq(s, i + 1, i + Len(m)) = m
Comp(x) == 3 - x
RevComp(m) == [i \in 1..Len(m) |-> Comp(m[Len(m) + 1 - i])]
Count(s, S) == Cardinality({i \in 1..Len(s) : s[i] \in S})
LastK(s, k) == IF Len(s) <= k THEN s ELSE SubSeq(s, Len(s) - k + 1, Len(s))
\* whole-sequence verdict, clause by clause as LocalBioFilter.valid(only_last=False) evaluates it
Whole(cfg, s) ==
  /\ \A i \in 1..Len(s) : s[i] \in 0..3
  /\ (cfg.run > 0 => ~\E x \in 0..3 : Occurs([i \in 1..(cfg.run + 1) |-> x], s))
  /\ \A m \in cfg.motifs : ~Occurs(m, s) /\ ~Occurs(RevComp(m), s)
  /\ (cfg.gc # <<>> =>
        IF Len(s) >= cfg.k
        THEN \A i \in 0..(Len(s) - cfg.k) :
               LET gcn == Count(SubSeq(s, i + 1, i + cfg.k), {1, 2}) IN
               /\ ~(gcn * cfg.gc[3] > cfg.gc[2] * cfg.k) /\ ~(gcn * cfg.gc[3] < cfg.gc[1] * cfg.k)
        ELSE /\ ~(Count(s, {1, 2}) * cfg.gc[3] > cfg.gc[2] * cfg.k)
             /\ ~(Count(s, {0, 3}) * cfg.gc[3] > (cfg.gc[3] - cfg.gc[1]) * cfg.k))
Valid(cfg, s, onlyLast) == IF onlyLast THEN Whole(cfg, LastK(s, cfg.k)) ELSE Whole(cfg, s)
\* the documented predicate on one full window (what a k-mer vertex means)
WindowPredicate(cfg, w) == Whole(cfg, w)
WindowDecidable(cfg) == (cfg.run > 0 => cfg.run < cfg.k) /\ \A m \in cfg.motifs : Len(m) <= cfg.k
CtorAccepts(cfg) == (cfg.run > 0 => cfg.run <= cfg.k) /\ \A m \in cfg.motifs : Len(m) <= cfg.k
Windows(s, k) == {SubSeq(s, i + 1, i + k) : i \in 0..(Len(s) - k)}
=============================================================================
