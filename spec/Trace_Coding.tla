---------------------------- MODULE Trace_Coding ----------------------------
(* Code -> spec for the coder: recorded encode/decode calls on seeded graphs of any order, long messages, tables and *)
(* checks are re-run on the step machines of Coding.tla, one machine step per TLC state, and judged.                *)
(* A verdict is the list of failing clauses (empty = ok); preconditions are decided here, from the specification.    *)
EXTENDS Coding, TLC, Json, IOUtils
Data == JsonDeserialize(IOEnv.TRACE_FILE)
Graphs == Data.graphs
Tables == Data.tables
Cases == Data.cases
Lives == [i \in 1..Len(Graphs) |-> LiveFn(Graphs[i])]
Tbls == [i \in 1..Len(Tables) |-> [v \in 0..(Len(Tables[i]) - 1) |-> Tables[i][v + 1]]]
VARIABLES cid, ph, e, d, verdict, vs          \* vs: the vertices the encoder machine stood on, one per loop iteration
vars == <<cid, ph, e, d, verdict, vs>>
C == Cases[cid]
LiveC == Lives[C.g]
NC == Len(Graphs[C.g])
TblC == IF C.tbl = 0 THEN [v \in 0..(NC - 1) |-> Ident] ELSE Tbls[C.tbl]
Init == /\ cid \in 1..Len(Cases) /\ ph = "pre" /\ verdict = <<>> /\ vs = <<>>
        /\ e = EncInit(0, <<>>) /\ d = DecInit(0)
Emit(v) == PrintT(ToJson([cid |-> cid, verdict |-> v]))
\* ---------------- kind "enc": encode, check, decode as recorded from the code
PreEnc == /\ ph = "pre" /\ C.kind = "enc"
          /\ IF WellFormedFast(LiveC, NC, C.start) /\ (C.mode = "fast" => NoDeg3From(LiveC, NC, C.start))
             THEN ph' = "enc" /\ e' = EncInit(C.start, C.msg) /\ UNCHANGED <<verdict>>
             ELSE ph' = "end" /\ verdict' = <<"precondition-false">> /\ Emit(verdict') /\ UNCHANGED e
          /\ UNCHANGED <<cid, d, vs>>
EncRun == /\ ph = "enc" /\ e.out = "run" /\ e' = EncStep(LiveC, NC, TblC, C.msg, C.mode, e)
          /\ vs' = (IF e'.ticks > e.ticks THEN Append(vs, e.v) ELSE vs)            \* a loop iteration happened at vertex e.v
          /\ UNCHANGED <<cid, ph, d, verdict>>
Bound == Len(C.msg) * Cardinality(Closure(LiveC, NC, {C.start}))
EncJudge == /\ ph = "enc" /\ e.out # "run"
            /\ LET chk == IF C.vtlen > 0 THEN VT(e.strand, C.vtlen) ELSE <<>>
                   v == (IF e.out # "ok" THEN <<"machinery:spec-encoder-failed">> ELSE <<>>)
                        \o (IF C.enc_out = "budget" \/ C.ticks > Bound THEN <<"termination-bound">> ELSE <<>>)
                        \o (IF C.enc_out \notin {"ok", "budget"} THEN <<"encode-raises">> ELSE <<>>)
                        \o (IF C.enc_out = "ok" /\ C.strand # e.strand THEN <<"strand">> ELSE <<>>)
                        \o (IF C.enc_out = "ok" /\ C.vt # chk THEN <<"check">> ELSE <<>>)
                        \o (IF C.enc_out = "ok" /\ C.dec_out # "none" /\ (C.dec_out # "ok" \/ C.decoded # C.msg) THEN <<"round-trip">> ELSE <<>>)
                        \o (IF C.enc_out = "ok" /\ C.strand # <<>> /\ ~IsWalk(LiveC, NC, C.start, C.strand) THEN <<"not-a-walk">> ELSE <<>>)
                        \* step conformance: the vertex reported by the tick hook at every loop iteration (when hooks are present)
                        \o (IF C.enc_out = "ok" /\ C.tv # <<>> /\ C.tv # vs THEN <<"conformance:tick-vertices">> ELSE <<>>)
               IN verdict' = v /\ Emit(v)
            /\ ph' = "end" /\ UNCHANGED <<cid, e, d, vs>>
\* ---------------- kind "dec": decode of an arbitrary string as recorded from the code
PreDec == /\ ph = "pre" /\ C.kind = "dec" /\ ph' = "dec" /\ d' = DecInit(C.start) /\ UNCHANGED <<cid, e, verdict, vs>>
DecRun == /\ ph = "dec" /\ d.ph # "done" /\ d' = DecStep(LiveC, NC, TblC, C.dna, C.chk, C.mode, C.w, d) /\ UNCHANGED <<cid, ph, e, verdict, vs>>
DecJudge == /\ ph = "dec" /\ d.ph = "done"
            /\ LET walk == IsWalk(LiveC, NC, C.start, C.dna)
                   accept == walk /\ CheckOK(C.dna, C.chk)
                   v == IF d.out = "indexerror" \/ (C.mode = "fast" /\ d.carried > C.w) THEN <<"out-of-scope">>
                        ELSE IF C.mode = "fast" /\ \E u \in Closure(LiveC, NC, {C.start}) : Cardinality(LiveC[u]) = 3 THEN <<"out-of-scope">>
                        ELSE (IF (d.out = "ok") # accept THEN <<"machinery:spec-decoder-disagrees-with-AcceptIffWalk">> ELSE <<>>)
                          \o (IF accept /\ C.out # "ok" THEN <<"rejects-walk">> ELSE <<>>)
                          \o (IF accept /\ C.out = "ok" /\ Len(C.bits) # C.w THEN <<"wrong-length">> ELSE <<>>)
                          \o (IF accept /\ C.out = "ok" /\ C.bits # d.bits THEN <<"decoded-value">> ELSE <<>>)
                          \o (IF ~accept /\ C.out = "ok" THEN <<"accepts-non-walk">> ELSE <<>>)
                          \o (IF ~accept /\ C.out \notin {"ok", "ValueError"} THEN <<"wrong-exception-type">> ELSE <<>>)
               IN verdict' = v /\ Emit(v)
            /\ ph' = "end" /\ UNCHANGED <<cid, e, d, vs>>
Next == PreEnc \/ EncRun \/ EncJudge \/ PreDec \/ DecRun \/ DecJudge
Spec == Init /\ [][Next]_vars
=============================================================================
