CONSTANT Depth = 2
INIT Init
NEXT Next
PROPERTY Frame
CONSTRAINT Bound
CHECK_DEADLOCK FALSE
