CONSTANTS Graphs <- G3Quick
Source = "edits"
WalkLen = 12
NEdits = 1
MaxLen = 0
Heaps <- H0
EmitOn = TRUE
INIT Init
NEXT Next
INVARIANT Recovers
INVARIANT DetectsIffNotWalk
INVARIANT CleanLeftAlone
INVARIANT SortedUnique
INVARIANT CheckConsistent
PROPERTY ScanAdvances
INVARIANT TickBound
INVARIANT LookupBound
INVARIANT OperatorAgrees
INVARIANT Emit
CHECK_DEADLOCK FALSE
