---------------------------- MODULE MC_Conv ----------------------------
(* C16: every bit sequence / DNA string up to MaxLen symbols: string-typed and integer-typed code paths agree,      *)
(* number -> rendering -> number is the identity, wider renderings are left-padded with 0 (A).                      *)
EXTENDS Bignum, TLC, Json
CONSTANTS MaxLen, Base, EmitOn
Seqs == UNION {[1..n -> 0..(Base - 1)] : n \in 0..MaxLen}
VARIABLES seq, ph
vars == <<seq, ph>>
Init == seq \in Seqs /\ ph = 0
Next == ph = 0 /\ ph' = 1 /\ UNCHANGED seq
Spec == Init /\ [][Next]_vars
NStr == StrOfSeq(seq, Base)
NInt == IntOfSeq(seq, Base)
PathsAgree == NStr = DecOf(NInt) /\ IsCanon(NStr)
RoundTrip == /\ PadW(DigitsOfStr(NStr, Base), Len(seq), Base = 2) = seq
             /\ PadW(DigitsOfInt(NInt, Base), Len(seq), Base = 2) = seq
WiderPads == \A w \in Len(seq)..(Len(seq) + 2) :
               LET r == PadW(DigitsOfInt(NInt, Base), w, Base = 2) IN
               /\ Len(r) = w /\ IntOfSeq(r, Base) = NInt /\ \A i \in 1..(w - Len(seq)) : r[i] = 0
               /\ r = PadW(DigitsOfStr(NStr, Base), w, Base = 2)
\* every number below Base^L is the value of exactly one L-symbol sequence (so the scope covers "every number below 2^L")
Below == NInt < Base^Len(seq)
Witness == ~(Len(seq) = MaxLen /\ \A i \in 1..Len(seq) : seq[i] = Base - 1)
Emit == (EmitOn /\ ph = 1) => PrintT(ToJson([base |-> Base, seq |-> seq, str |-> NStr,
                                   r0 |-> PadW(DigitsOfStr(NStr, Base), Len(seq), Base = 2),
                                   r2 |-> PadW(DigitsOfStr(NStr, Base), Len(seq) + 2, Base = 2)]))
=============================================================================
