---------------------------- MODULE Trace_Filter ----------------------------
(* Code -> spec for C12: recorded LocalBioFilter verdicts (both only_last values) on seeded configurations with      *)
(* windows of 5..12 and strings up to 200 are judged against Filter.tla.                                            *)
EXTENDS Filter, TLC, Json, IOUtils
Data == JsonDeserialize(IOEnv.TRACE_FILE)
Cfgs == Data.cfgs
Cases == Data.cases
VARIABLES cid, verdict
vars == <<cid, verdict>>
Init == cid \in 1..Len(Cases) /\ verdict = "pending"
CfgOf(c) == LET r == Cfgs[c.cfg] IN [k |-> r.k, run |-> r.run, gc |-> r.gc, motifs |-> ToSet(r.motifs)]
Judge(c) ==
  LET cfg == CfgOf(c) IN
  IF ~CtorAccepts(cfg) THEN (IF c.ctor = "ValueError" THEN "ok" ELSE "violation:constructor-accepts")
  ELSE IF c.ctor # "ok" THEN "violation:constructor-rejects"
  ELSE IF c.whole # Whole(cfg, c.s) THEN "violation:whole-sequence-verdict"
  ELSE IF c.last # Valid(cfg, c.s, TRUE) THEN "violation:last-window-verdict"
  ELSE "ok"
Check == /\ verdict = "pending" /\ verdict' = Judge(Cases[cid])
         /\ PrintT(ToJson([cid |-> cid, verdict |-> verdict'])) /\ UNCHANGED cid
Next == Check
Spec == Init /\ [][Next]_vars
=============================================================================
