---------------------------- MODULE MC_CtorScope ----------------------------
(* Names, for window lengths 1..6, the filter configurations that are window-decidable and those that are not         *)
(* (run limit >= window, motif longer than the window): the real constructor must accept exactly the former (C02).   *)
EXTENDS Filter, TLC, Json
VARIABLES k, run, ms
\* motif lists in the order the caller writes them: the over-long motif first, last, lexicographically smallest or greatest
MotifLists == {<<>>, <<<<2, 1>>>>, <<<<0, 2, 2, 1>>>>, <<<<0, 3>>, <<1, 2, 1>>>>, <<<<3, 3>>, <<0, 1, 2, 3>>>>, <<<<0, 1, 2, 3>>, <<3, 3>>>>,
               <<<<2, 0, 0, 3, 3, 1>>, <<3, 3, 0, 0>>>>, <<<<1, 2>>, <<1, 2, 1, 2, 1>>, <<3>>>>, <<<<3>>, <<0, 0, 0>>, <<2, 2>>>>}
Init == k \in 1..6 /\ run \in 0..7 /\ ms \in MotifLists
Next == FALSE /\ UNCHANGED <<k, run, ms>>
Cfg == [k |-> k, run |-> run, gc |-> <<>>, motifs |-> {ms[i] : i \in 1..Len(ms)}]
Emit == PrintT(ToJson([k |-> k, run |-> run, motifs |-> ms, decidable |-> WindowDecidable(Cfg), codeaccepts |-> CtorAccepts(Cfg)]))
=============================================================================
