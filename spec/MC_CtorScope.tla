---------------------------- MODULE MC_CtorScope ----------------------------
(* Names, for window lengths 1..6, the filter configurations that are window-decidable and those that are not         *)
(* (run limit >= window, motif longer than the window): the real constructor must accept exactly the former (C02).   *)
EXTENDS Filter, TLC, Json
VARIABLES k, run, ms
MotifSets == {{}, {<<2, 1>>}, {<<0, 2, 2, 1>>}, {<<0, 3>>, <<1, 2, 1>>}}
Init == k \in 1..6 /\ run \in 0..7 /\ ms \in MotifSets
Next == FALSE /\ UNCHANGED <<k, run, ms>>
Cfg == [k |-> k, run |-> run, gc |-> <<>>, motifs |-> ms]
Emit == PrintT(ToJson([k |-> k, run |-> run, motifs |-> SetToSeq(ms), decidable |-> WindowDecidable(Cfg), codeaccepts |-> CtorAccepts(Cfg)]))
=============================================================================
