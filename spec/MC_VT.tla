---------------------------- MODULE MC_VT ----------------------------
(* C07 on every strand up to MaxLen x every check length up to MaxN: shape, agreement of the documented function with the      *)
(* formula the code evaluates, definedness on the empty strand, and every single substitution / C,G,T indel changes the check.  *)
EXTENDS VT, TLC, Json
CONSTANTS MaxLen, MaxN, NbLen, EmitOn
Strs == UNION {[1..m -> 0..3] : m \in 0..MaxLen}
VARIABLES s, n
Init == s \in Strs /\ n \in 1..MaxN
Next == FALSE /\ UNCHANGED <<s, n>>
Shape == Len(VTDoc(s, n)) = n /\ \A i \in 1..n : VTDoc(s, n)[i] \in 0..3
CodeIsDoc == VTDoc(s, n) = VTCode(s, n)
EditsChange == \A x \in Neighbours(s) : VTDoc(x, n) # VTDoc(s, n)
\* the mechanism behind EditsChange: the first symbol alone separates them
FlagSeparates == \A x \in Neighbours(s) : VTDoc(x, n)[1] # VTDoc(s, n)[1]
EmptyDefined == s = <<>> => VTDoc(s, n) = [i \in 1..n |-> 0]
Witness == ~(Len(s) = MaxLen /\ n = MaxN /\ VTDoc(s, n)[n] = 3)
Emit == EmitOn => PrintT(ToJson([s |-> s, n |-> n, vt |-> VTDoc(s, n),
                                 nb |-> IF Len(s) <= NbLen THEN SetToSeq(Neighbours(s)) ELSE <<>>]))
=============================================================================
