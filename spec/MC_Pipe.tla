---------------------------- MODULE MC_Pipe ----------------------------
(* The composed pipeline  filter -> vertex mask -> coding graph (threshold t) -> encode from a retained start.        *)
(* Properties C02 (every window of start k-mer + strand obeys the constraints) and C04 (encoding on generated graphs *)
(* is total, dead-end free, bounded and tight).  The mask comes either from a built-in filter configuration or is an  *)
(* arbitrary vertex set standing for a user-defined window predicate.                                                *)
EXTENDS Generate, Coding, TLC, Json, IOUtils
CONSTANTS Cfgs, KMask, MaskMod, MaxBits, Modes, EmitOn
Gcs == {<<>>, <<1, 1, 2>>, <<0, 1, 2>>, <<1, 3, 4>>}
MS == {{}, {<<2, 1>>}, {<<0, 0>>}, {<<0, 3>>}}
Cfgs2 == {[k |-> 2, run |-> r, gc |-> g, motifs |-> ms] : r \in 0..2, g \in Gcs, ms \in MS}
Cfgs3 == {[k |-> 3, run |-> r, gc |-> g, motifs |-> ms] : r \in {0, 1, 2, 3}, g \in {<<>>, <<1, 2, 3>>, <<1, 3, 4>>, <<0, 2, 3>>},
                                                          ms \in {{}, {<<2, 1>>}, {<<0, 3, 0>>}, {<<1, 2, 1>>, <<0, 0>>}}}
Cfgs23 == Cfgs2 \cup Cfgs3
NoCfgs == {}
BothModes == {"normal", "fast"}
NoCfg == [k |-> KMask, run |-> 0, gc |-> <<>>, motifs |-> {}]
BitSeqs == UNION {[1..n -> {0, 1}] : n \in 0..MaxBits}
MKey(m) == Cardinality(m) + 3 * FoldSet(LAMBDA x, a : a + x, 0, m)
Slot == IF MaskMod <= 1 THEN 0 ELSE atoi(IOEnv.VERIF_SLOT) % MaskMod
VARIABLES src, cfg, t, ph, mask, ret, start, msg, mode, e, tk       \* tk: "id" = no digit shuffling, "mix" = a shuffle table
vars == <<src, cfg, t, ph, mask, ret, start, msg, mode, e, tk>>
KK == cfg.k
N == 4^KK
Init == /\ \/ (src = "cfg" /\ cfg \in {c \in Cfgs : CtorAccepts(c)} /\ mask = {})
           \/ (src = "mask" /\ MaskMod > 0 /\ cfg = NoCfg /\ mask \in {m \in SUBSET (0..(4^KMask - 1)) : MKey(m) % MaskMod = Slot})
        /\ t \in 1..4 /\ ph = "find"
        /\ ret = {} /\ start = 0 /\ msg = <<>> /\ mode = "normal" /\ e = EncInit(0, <<>>) /\ tk = "id"
Find == /\ ph = "find"
        /\ mask' = (IF src = "cfg" THEN FindVertices(cfg) ELSE mask)
        /\ ph' = (IF mask' = {} THEN "novertex" ELSE "gen")
        /\ UNCHANGED <<src, cfg, t, ret, start, msg, mode, e, tk>>
Gen == /\ ph = "gen"
       /\ ret' = CodingSet(N, mask, t)
       /\ ph' = (IF ret' = {} THEN "nograph" ELSE "pick")
       /\ UNCHANGED <<src, cfg, t, mask, start, msg, mode, e, tk>>
Live == LiveOfSet(N, ret)
IdTbl == [u \in 0..(N - 1) |-> Ident]
MixTbl == [u \in 0..(N - 1) |-> IF u % 2 = 0 THEN <<1, 3, 0, 2>> ELSE <<3, 0, 2, 1>>]
Tbl == IF tk = "id" THEN IdTbl ELSE MixTbl
Pick == /\ ph = "pick"
        /\ \E s \in ret, m \in BitSeqs, md \in Modes, k2 \in {"id", "mix"} :
             /\ (md = "fast" => \A u \in ret : Cardinality(Live[u]) # 3)
             /\ (k2 = "mix" => Len(m) = MaxBits)              \* shuffled digits on the longest messages only (keeps the scope affordable)
             /\ start' = s /\ msg' = m /\ mode' = md /\ e' = EncInit(s, m) /\ tk' = k2
        /\ ph' = "enc"
        /\ UNCHANGED <<src, cfg, t, mask, ret>>
Enc == /\ ph = "enc" /\ e.out = "run" /\ e' = EncStep(Live, N, Tbl, msg, mode, e)
       /\ UNCHANGED <<src, cfg, t, ph, mask, ret, start, msg, mode, tk>>
EncEnd == /\ ph = "enc" /\ e.out # "run" /\ ph' = (IF e.out = "ok" THEN "done" ELSE "encfail")
          /\ UNCHANGED <<src, cfg, t, mask, ret, start, msg, mode, e, tk>>
Next == Find \/ Gen \/ Pick \/ Enc \/ EncEnd
Spec == Init /\ [][Next]_vars
FairSpec == Spec /\ WF_vars(Next)
Termination == <>(ph \in {"done", "novertex", "nograph", "encfail"})
\* ---------------- C02
Full == Kmer(start, KK) \o e.strand
WindowOK(w) == IF src = "cfg" THEN WindowPredicate(cfg, w) ELSE ValueOf(w) \in mask
Running == ph \in {"enc", "done"}
EveryWindowValid == Running => \A w \in Windows(Full, KK) : WindowOK(w)
OnlyRetained == Running => e.v \in ret
VertexIsWindow == Running => Kmer(e.v, KK) = SubSeq(Full, Len(Full) - KK + 1, Len(Full))
LocalToGlobal == (ph = "done" /\ src = "cfg" /\ WindowDecidable(cfg)) => Whole(cfg, e.strand) /\ Whole(cfg, Full)
RetainedAreValid == ph \in {"pick", "enc", "done"} => ret \subseteq mask /\ Closed(N, ret, t)
\* the premise-free twin must FAIL (it is the counterexample behind the known finding D8): checked by a separate cfg
NonDecidableCanBreak == (ph = "done" /\ src = "cfg" /\ ~WindowDecidable(cfg)) => Whole(cfg, Full)
\* ---------------- C04
EncTotal == ph # "encfail"
WalkInv == Running => IsWalk(Live, N, start, e.strand)
StepBound == Running => e.ticks <= Len(msg) * Cardinality(ret) + 1
LastIsBranching == (ph = "done" /\ e.strand # <<>>) => DegreesAlong(Live, N, start, e.strand)[Len(e.strand)] >= 2
M == BitsVal(msg)
TightNormal == (ph = "done" /\ mode = "normal") =>
                  /\ (e.strand = <<>> <=> M = 0)
                  /\ (e.strand # <<>> => RadixProduct(DigitsAlong(Live, N, Tbl, start, SubSeq(e.strand, 1, Len(e.strand) - 1))) <= M)
                  /\ (t >= 2 => Len(e.strand) <= Len(msg))
                  /\ ((t = 4 \/ \A u \in ret : Cardinality(Live[u]) = 4) => Len(e.strand) <= (Len(msg) + 1) \div 2)
TightFast == (ph = "done" /\ mode = "fast") =>
                LET b == Len(FastBitsAlong(Live, N, Tbl, start, e.strand)) IN b \in {Len(msg), Len(msg) + 1}
Witness == ~(ph = "done" /\ t = 1 /\ Len(e.strand) > Len(msg) /\ mode = "normal" /\ Len(msg) >= 2)      \* an information-free step was taken
Emit == (EmitOn /\ ph = "done") =>
          PrintT(ToJson([src |-> src, cfg |-> [k |-> cfg.k, run |-> cfg.run, gc |-> cfg.gc, motifs |-> SetToSeq(cfg.motifs)],
                         t |-> t, mask |-> SetToSortSeq(mask, <), ret |-> SetToSortSeq(ret, <), start |-> start, msg |-> msg, mode |-> mode, tk |-> tk,
                         strand |-> e.strand, ticks |-> e.ticks, bound |-> Len(msg) * Cardinality(ret),
                         decidable |-> WindowDecidable(cfg), wstrand |-> (src = "mask" \/ Whole(cfg, e.strand)),
                         wfull |-> (src = "mask" \/ Whole(cfg, Full))]))
=============================================================================
