---------------------------- MODULE Trace_DeBruijn ----------------------------
(* Code -> spec: recorded results of the index/k-mer/arc helpers and every accessor the library handed back   *)
(* are judged against the definitions of DeBruijn.tla.  One verdict line per case.                              *)
EXTENDS DeBruijn, TLC, Json, IOUtils
Data == JsonDeserialize(IOEnv.TRACE_FILE)
Cases == Data.cases
VARIABLES cid, verdict
vars == <<cid, verdict>>
Init == cid \in 1..Len(Cases) /\ verdict = "pending"
JudgeArith(c) ==
  IF c.latters # SuccList(c.v, c.k) THEN "violation:successors"
  ELSE IF c.formers # PredList(c.v, c.k) THEN "violation:predecessors"
  ELSE IF c.kmer_int # Kmer(c.v, c.k) \/ c.kmer_str # Kmer(c.v, c.k) THEN "violation:index-to-kmer"
  ELSE IF c.back_int # c.v \/ c.back_str # c.v THEN "violation:kmer-to-index"
  ELSE IF c.row # SuccList(c.v, c.k) THEN "violation:complete-accessor-row"
  ELSE "ok"
JudgeAcc(c) == IF WellFormedAccessor(c.acc) THEN "ok" ELSE "violation:column-holds-successor"
Judge(c) == IF c.kind = "arith" THEN JudgeArith(c) ELSE JudgeAcc(c)
Check == /\ verdict = "pending" /\ verdict' = Judge(Cases[cid])
         /\ PrintT(ToJson([cid |-> cid, verdict |-> verdict'])) /\ UNCHANGED cid
Next == Check
Spec == Init /\ [][Next]_vars
=============================================================================
