---------------------------- MODULE VT ----------------------------
(* The Varshamov-Tenengolts path check of DNASpiderWeb (property C07).                                             *)
(* VTDoc is the documented function, defined by digit extraction so that no power 4^(n-1) is ever formed and any   *)
(* check length is representable; VTCode is the formula the code evaluates.                                        *)
EXTENDS Naturals, Integers, Sequences, FiniteSets, SequencesExt, FiniteSetsExt, Functions

SumSeq(s) == FoldLeft(LAMBDA a, d : a + d, 0, s)
Ascents(s) == {i \in 0..(Len(s) - 2) : s[i + 2] > s[i + 1]}        \* 0-based positions followed by a larger nucleotide
SumOfSet(S) == FoldSet(LAMBDA i, a : a + i, 0, S)
RECURSIVE LowDigits(_, _)
LowDigits(n, w) == IF w = 0 THEN <<>> ELSE Append(LowDigits(n \div 4, w - 1), n % 4)   \* low w base-4 digits, big-endian
VTDoc(s, n) == <<SumSeq(s) % 4>> \o LowDigits(SumOfSet(Ascents(s)), n - 1)
VTCode(s, n) == <<SumSeq(s) % 4>> \o LowDigits(SumOfSet(Ascents(s)) % (4^(n - 1)), n - 1)
VT(s, n) == VTDoc(s, n)

Subst(s) == {[s EXCEPT ![i] = c] : i \in 1..Len(s), c \in 0..3} \ {s}
Ins(s) == {SubSeq(s, 1, i) \o <<c>> \o SubSeq(s, i + 1, Len(s)) : i \in 0..Len(s), c \in 1..3}      \* C, G or T inserted
Del(s) == {SubSeq(s, 1, i - 1) \o SubSeq(s, i + 1, Len(s)) : i \in {j \in 1..Len(s) : s[j] \in 1..3}} \* C, G or T deleted
Neighbours(s) == Subst(s) \cup Ins(s) \cup Del(s)
=============================================================================
