CONSTANTS MaxLen = 6
Cfgs <- CfgsThorough
EmitOn = TRUE
INIT Init
NEXT Next
INVARIANT LastWindow
INVARIANT WindowConj
INVARIANT RevCompInv
INVARIANT SubstrOfValidWindow
INVARIANT Emit
CHECK_DEADLOCK FALSE
