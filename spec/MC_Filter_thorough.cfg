CONSTANTS MaxLen = 5
Cfgs <- CfgsThorough
EmitOn = TRUE
INIT Init
NEXT Next
INVARIANT LastWindow
INVARIANT WindowConj
INVARIANT RevCompInv
INVARIANT SubstrOfValidWindow
INVARIANT Emit
CHECK_DEADLOCK FALSE
