---------------------------- MODULE Ind_Mul ----------------------------
(* Apalache inductive lemma (unbounded integers): digit-serial multiplication by one digit, least significant digit first -   *)
(* the step of Bignum!MulStep: pout + carry * pow = pin * b with carry in 0..8 is inductive for an arbitrary next digit.          *)
EXTENDS Integers
\* Digit-serial multiplication by a single digit b, least significant digit first.
\* pin  = value of the input digits consumed so far, pout = value of the output digits produced so far,
\* pow  = 10^(number of digits consumed), carry = pending carry.
VARIABLES
  \* @type: Int;
  b,
  \* @type: Int;
  pin,
  \* @type: Int;
  pout,
  \* @type: Int;
  pow,
  \* @type: Int;
  carry

Init == b \in 0..9 /\ pin = 0 /\ pout = 0 /\ pow = 1 /\ carry = 0

Step == \E d \in 0..9 :
          LET cur == d * b + carry IN
          /\ pin' = pin + d * pow
          /\ pout' = pout + (cur % 10) * pow
          /\ carry' = cur \div 10
          /\ pow' = pow * 10
          /\ b' = b
Next == Step

\* inductive invariant: out + carry*pow = in*b, carry small, pow positive
IndInv == /\ b \in 0..9 /\ carry \in 0..8 /\ pow >= 1 /\ pin >= 0 /\ pout >= 0
          /\ pout + carry * pow = pin * b
IndInit == b \in 0..9 /\ carry \in 0..8 /\ pow \in Nat /\ pin \in Nat /\ pout \in Nat /\ IndInv
=============================================================================
