CONSTANTS K = 2
MaxBrute = 4
CheckMono = FALSE
EmitOn = FALSE
SPECIFICATION FairSpec
PROPERTY Termination
CHECK_DEADLOCK FALSE
