CONSTANTS Cfgs <- NoCfgs
KMask = 2
MaskMod = 64
MaxBits = 3
Modes <- BothModes
EmitOn = FALSE
INIT Init
NEXT Next
INVARIANT Witness
CHECK_DEADLOCK FALSE
