---------------------------- MODULE Capacity ----------------------------
(* The exact integer model behind dsw.graphized.approximate_capacity (property C17).                                   *)
(*   W_0(v) = [v has an out-arc],  W_{n+1}(v) = sum of W_n over the successors of v   (numbers of n-step walks that      *)
(*   stay on vertices with out-arcs).  The deterministic mode's n-th estimate is e_n = max W_n / max W_{n-1}; capacity   *)
(*   is log2 of the growth rate (spectral radius) of W_n.                                                              *)
(* From it, with 32-bit integers only: regularity, the structural class of the property (cyclic part = one strongly      *)
(* connected primitive component), a Birkhoff-contraction certificate for the spectral gap, and a Collatz-Wielandt      *)
(* interval lo_n <= rho <= hi_n.                                                                                        *)
EXTENDS DeBruijn, TLC

OutOf(live, N, v) == {Succ(N, v, j) : j \in live[v]}
OutFn(live, N) == [v \in 0..(N - 1) |-> OutOf(live, N, v)]
RECURSIVE ClosureO(_, _)
ClosureO(out, S) == LET S2 == S \cup UNION {out[u] : u \in S} IN IF S2 = S THEN S ELSE ClosureO(out, S2)
\* a*b >= c*d for a, b, c, d < 2^30, with 15-bit limbs (no 32-bit overflow)
Lo15(x) == x % 32768
Hi15(x) == x \div 32768
Norm3(h, m, l) == LET l2 == l % 32768 c1 == l \div 32768 m1 == m + c1 m2 == m1 % 32768 c2 == m1 \div 32768 IN <<h + c2, m2, l2>>
Prod3(a, b) == Norm3(Hi15(a) * Hi15(b), Hi15(a) * Lo15(b) + Lo15(a) * Hi15(b), Lo15(a) * Lo15(b))
GeT3(x, y) == \/ x[1] > y[1] \/ (x[1] = y[1] /\ x[2] > y[2]) \/ (x[1] = y[1] /\ x[2] = y[2] /\ x[3] >= y[3])
MulGe(a, b, c, d) == GeT3(Prod3(a, b), Prod3(c, d))
MulEq(a, b, c, d) == Prod3(a, b) = Prod3(c, d)
\* Theta[m] >= ((1 - 0.9^m) / (1 + 0.9^m))^2, rounded up: Birkhoff coefficient phi with phi >= Theta[m] proves |lambda2|/lambda1 <= 0.9 (Hopf)
Theta == << <<3, 1000>>, <<12, 1000>>, <<25, 1000>>, <<44, 1000>>, <<67, 1000>>, <<94, 1000>> >>
Steps == 13

\* st = [ph, out, live, C, M, m, w, w2, x, x2, n, res, reg, lo, hi, est, prem]
CapInit(live, N) ==
  [ph |-> "scc", light |-> FALSE, N |-> N, out |-> OutFn(live, N), alive |-> {v \in 0..(N - 1) : live[v] # {}}, C |-> {}, M |-> <<>>, m |-> 0,
   w |-> <<>>, w2 |-> <<>>, x |-> <<>>, x2 |-> <<>>, n |-> 0, res |-> "?", reg |-> -1,
   lo |-> <<0, 1>>, hi |-> <<4, 1>>, est |-> <<>>, prem |-> <<0, 0, 0>>]
\* light variant: regularity and exact estimates only (no component analysis); used for the uniform-pattern family at larger orders
CapInitLight(live, N) == [CapInit(live, N) EXCEPT !.light = TRUE]
MaxOfFn(f, S) == Max({f[v] : v \in S})
ArgLo(w, w2, C) == CHOOSE v \in C : \A u \in C : MulGe(w2[u], w[v], w2[v], w[u])
ArgHi(w, w2, C) == CHOOSE v \in C : \A u \in C : MulGe(w2[v], w[u], w2[u], w[v])
CapStep(st) ==
  CASE st.ph = "scc" ->
         LET out == st.out
             rp == IF st.light THEN [v \in DOMAIN out |-> {}] ELSE [v \in DOMAIN out |-> ClosureO(out, out[v])]
             cyc == {v \in DOMAIN out : v \in rp[v]}
             A == st.alive
             \* regular: every vertex with out-arcs has exactly d successors that have out-arcs themselves
             degs == {Cardinality(out[v] \cap A) : v \in A}
             x0 == [v \in DOMAIN out |-> IF v \in A THEN 1 ELSE 0]
         IN [st EXCEPT !.C = cyc,
                       !.reg = IF A # {} /\ Cardinality(degs) = 1 THEN CHOOSE d \in degs : TRUE ELSE -1,
                       !.x = x0, !.x2 = [v \in DOMAIN out |-> FoldSet(LAMBDA u, a : a + x0[u], 0, out[v])],
                       !.ph = IF cyc # {} /\ \A u \in cyc : cyc \subseteq rp[u] THEN "pow" ELSE "est",
                       !.res = IF st.light THEN "not-classified" ELSE IF cyc = {} THEN "acyclic" ELSE IF \A u \in cyc : cyc \subseteq rp[u] THEN "?" ELSE "not-single-scc",
                       !.m = 1,
                       !.M = [u \in cyc |-> [v \in cyc |-> IF v \in out[u] THEN 1 ELSE 0]]]
    [] st.ph = "pow" ->
         IF \A u \in st.C, v \in st.C : st.M[u][v] > 0 THEN [st EXCEPT !.ph = "birk"]
         ELSE IF st.m >= 6 THEN [st EXCEPT !.ph = "est", !.res = "not-primitive-6"]
         ELSE [st EXCEPT !.M = [u \in st.C |-> [v \in st.C |-> FoldSet(LAMBDA y, acc : acc + st.M[y][v], 0, st.out[u] \cap st.C)]],
                         !.m = @ + 1]
    [] st.ph = "birk" ->
         \* Birkhoff coefficient phi = min over i, j, k, l of M[i][k] M[j][l] / (M[j][k] M[i][l]); for a pair (i, j) the minimum is reached
         \* at k = argmin M[i][.]/M[j][.] and l = argmax, so only those two columns are compared (cubic instead of quartic work)
         LET th == Theta[st.m] C == st.C M == st.M
             \* argmin / argmax of the ratio M[i][k] / M[j][k] over k by one linear fold each (ratios compared by cross-multiplication)
             kmin(i, j) == FoldSet(LAMBDA k, b : IF M[i][k] * M[j][b] < M[i][b] * M[j][k] THEN k ELSE b, CHOOSE k0 \in C : TRUE, C)
             kmax(i, j) == FoldSet(LAMBDA k, b : IF M[i][k] * M[j][b] > M[i][b] * M[j][k] THEN k ELSE b, CHOOSE k0 \in C : TRUE, C)
             good(i, j) == LET a == kmin(i, j) b == kmax(i, j) IN MulGe(M[i][a] * M[j][b], th[2], M[j][a] * M[i][b], th[1])
         IN
         [st EXCEPT !.res = IF \A i \in C, j \in C : good(i, j) THEN "certified" ELSE "gap-unknown",
                    !.ph = "cw", !.w = [v \in C |-> 1], !.w2 = [v \in C |-> Cardinality(st.out[v] \cap C)], !.n = 1]
    [] st.ph \in {"cw", "est"} ->
         \* one more power step on both vector pairs; record the exact estimate e_n = max x2 / max x and the CW bounds
         LET A == st.alive
             mx == MaxOfFn(st.x, DOMAIN st.out)  mx2 == MaxOfFn(st.x2, DOMAIN st.out)
             est2 == Append(st.est, <<mx2, mx>>)
             ne == Len(est2)
             premNow == st.prem[3] = 0 /\ ne >= 2 /\ est2[ne][2] > 0 /\ est2[ne - 1][2] > 0
                        /\ MulEq(est2[ne][1], est2[ne - 1][2], est2[ne - 1][1], est2[ne][2])
             inCw == st.ph = "cw"
             lv == IF inCw THEN ArgLo(st.w, st.w2, st.C) ELSE 0
             hv == IF inCw THEN ArgHi(st.w, st.w2, st.C) ELSE 0
         IN IF st.n >= Steps \/ mx2 = 0 THEN
               [st EXCEPT !.ph = "done", !.est = est2,
                          !.prem = IF premNow THEN <<est2[ne][1], est2[ne][2], ne>> ELSE @,
                          !.lo = IF inCw THEN <<st.w2[lv], st.w[lv]>> ELSE @, !.hi = IF inCw THEN <<st.w2[hv], st.w[hv]>> ELSE @]
            ELSE
               [st EXCEPT !.est = est2, !.n = @ + 1,
                          !.prem = IF premNow THEN <<est2[ne][1], est2[ne][2], ne>> ELSE @,
                          !.x = st.x2, !.x2 = [v \in DOMAIN st.out |-> FoldSet(LAMBDA u, a : a + st.x2[u], 0, st.out[v])],
                          !.lo = IF inCw THEN <<st.w2[lv], st.w[lv]>> ELSE @, !.hi = IF inCw THEN <<st.w2[hv], st.w[hv]>> ELSE @,
                          !.w = IF inCw THEN st.w2 ELSE @,
                          !.w2 = IF inCw THEN [v \in st.C |-> FoldSet(LAMBDA u, a : a + st.w2[u], 0, st.out[v] \cap st.C)] ELSE @]
    [] OTHER -> st
\* ---- statements
\* (a) no estimate exceeds 4 (= 2 bits)
EstimatesLe4(st) == \A i \in 1..Len(st.est) : st.est[i][1] <= 4 * st.est[i][2]
\* (c) on a d-regular graph every estimate is exactly d
RegularExact(st) == st.reg >= 0 => \A i \in 1..Len(st.est) : st.est[i][1] = st.reg * st.est[i][2]
\* Collatz-Wielandt: lo never decreases, hi never increases, lo <= hi
CwOrdered(st) == st.ph \in {"cw", "done"} /\ st.res \in {"certified", "gap-unknown"} /\ st.n >= 2 => MulGe(st.hi[1], st.lo[2], st.lo[1], st.hi[2])
=============================================================================
