---------------------------- MODULE Views ----------------------------
(* The three graph representations of DNASpiderWeb - accessor, latter map, adjacency matrix - as TLA+ values, and    *)
(* the queries on them (property C14).  A graph is an arc subset of the order-k de Bruijn graph:                    *)
(* live \in [0..N-1 -> SUBSET 0..3].                                                                                *)
EXTENDS DeBruijn, Bags

VSet(N) == 0..(N - 1)
Acc(live, N) == [v \in VSet(N) |-> [j \in 0..3 |-> IF j \in live[v] THEN Succ(N, v, j) ELSE -1]]
LiveOf(acc, N) == [v \in VSet(N) |-> {j \in 0..3 : acc[v][j] >= 0}]
\* latter map: partial function on the vertices that have arcs; successors in column order
Lmap(acc, N) == [v \in {u \in VSet(N) : \E j \in 0..3 : acc[u][j] >= 0} |->
                   SelectSeq([j \in 1..4 |-> acc[v][j - 1]], LAMBDA x : x >= 0)]
AccOfLmap(lm, N) == [v \in VSet(N) |-> [j \in 0..3 |->
                       IF v \in DOMAIN lm /\ \E i \in 1..Len(lm[v]) : lm[v][i] % 4 = j
                       THEN (CHOOSE x \in {lm[v][i] : i \in 1..Len(lm[v])} : x % 4 = j) ELSE -1]]
Matrix(acc, N) == [u \in VSet(N) |-> [w \in VSet(N) |-> IF \E j \in 0..3 : acc[u][j] = w THEN 1 ELSE 0]]
Legal(m, N) == \A u \in VSet(N), w \in VSet(N) : m[u][w] = 1 => w \in {Succ(N, u, j) : j \in 0..3}
AccOfMatrix(m, N) == [u \in VSet(N) |-> [j \in 0..3 |-> IF m[u][Succ(N, u, j)] = 1 THEN Succ(N, u, j) ELSE -1]]
Vertices(acc, N) == {v \in VSet(N) : \E j \in 0..3 : acc[v][j] >= 0}
\* leaves, as the code keeps them: a sequence of vertices with multiplicity, one breadth-first layer per step
RECURSIVE LeavesAcc(_, _, _)
LeavesAcc(acc, branch, d) ==
  IF d = 0 THEN branch
  ELSE LeavesAcc(acc, FoldLeft(LAMBDA lv, u : lv \o SelectSeq([j \in 1..4 |-> acc[u][j - 1]], LAMBDA x : x >= 0), <<>>, branch), d - 1)
RECURSIVE LeavesLm(_, _, _)
LeavesLm(lm, branch, d) ==
  IF d = 0 THEN branch
  ELSE LeavesLm(lm, FoldLeft(LAMBDA lv, u : IF u \in DOMAIN lm THEN lv \o lm[u] ELSE lv, <<>>, branch), d - 1)
BagOfSeq(s) == FoldLeft(LAMBDA b, x : b (+) SetToBag({x}), EmptyBag, s)
\* independent definition: number of d-step walks from v ending in w
RECURSIVE Walks(_, _, _, _, _)
Walks(live, N, v, w, d) == IF d = 0 THEN (IF v = w THEN 1 ELSE 0)
                           ELSE FoldSet(LAMBDA j, a : a + Walks(live, N, Succ(N, v, j), w, d - 1), 0, live[v])
SortedSeq(s) == SortSeq(s, <)
\* ---- argument validation of the public queries (documented behaviour; conformance tier)
\* obtain_leaf_vertices: exactly one of accessor / latter map must be given
LeafArgsOutcome(hasAcc, hasLm) == IF hasAcc /\ hasLm THEN "ValueError" ELSE IF ~hasAcc /\ ~hasLm THEN "ValueError" ELSE "ok"
\* accessor_to_adjacency_matrix: MemoryError at or beyond 4^maximum_length vertices, ValueError for a malformed accessor
\* (not 4 columns, an entry below -1 or beyond the last vertex)
MatrixArgsOutcome(nrows, ncols, minEntry, maxEntry, maxLen) ==
  IF nrows >= 4^maxLen THEN "MemoryError"
  ELSE IF ncols # 4 \/ minEntry < -1 \/ maxEntry > nrows - 1 THEN "ValueError" ELSE "ok"
=============================================================================
