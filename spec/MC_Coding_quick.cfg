CONSTANTS K = 1
MaxBits = 3
Patterns <- P5
Tables <- T1
Modes <- BothModes
VtLens <- Vt03
EmitOn = TRUE
EmitMod = 1
INIT Init
NEXT Next
INVARIANT RoundTrip
INVARIANT WFAgree
INVARIANT EncTotal
INVARIANT WalkInv
INVARIANT PathShape
INVARIANT StepBound
INVARIANT DocHolds
INVARIANT DecValue
INVARIANT Emit
CHECK_DEADLOCK FALSE
