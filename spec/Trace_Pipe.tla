---------------------------- MODULE Trace_Pipe ----------------------------
(* Code -> spec for C02 and C04: observations recorded from the real pipeline                                         *)
(*   find_vertices -> connect_coding_graph -> encode -> filter.valid on every window / on the whole strand            *)
(* are judged against Generate.tla, Filter.tla and Coding.tla.  The retained vertex set of each graph is computed     *)
(* here (or was computed by TLC in MC_Pipe and is passed through as `ret`).                                           *)
EXTENDS Generate, Coding, TLC, Json, IOUtils
Data == JsonDeserialize(IOEnv.TRACE_FILE)
Gs == Data.graphs          \* [k, src, cfg (record with motifs as list), mask (list), t, ret (list or <<-1>> = compute here)]
Cases == Data.cases
CfgOf(r) == [k |-> r.k, run |-> r.run, gc |-> r.gc, motifs |-> ToSet(r.motifs)]
NOf(i) == 4^Gs[i].k
MaskOf(i) == IF Gs[i].src = "cfg" THEN FindVertices(CfgOf(Gs[i].cfg)) ELSE ToSet(Gs[i].mask)
Rets == [i \in 1..Len(Gs) |-> IF Gs[i].ret = <<-1>> THEN CodingSet(NOf(i), MaskOf(i), Gs[i].t) ELSE ToSet(Gs[i].ret)]
Lives == [i \in 1..Len(Gs) |-> LiveOfSet(NOf(i), Rets[i])]
VARIABLES cid, verdict
vars == <<cid, verdict>>
Init == cid \in 1..Len(Cases) /\ verdict = <<>>
RECURSIVE RadixLimbs(_, _, _, _, _)
RadixLimbs(live, N, u, w, acc) == IF w = <<>> THEN acc
                                  ELSE LET d == Cardinality(live[u]) IN
                                       RadixLimbs(live, N, Succ(N, u, Head(w)), Tail(w), IF d > 1 THEN MulAdd(acc, d, 0) ELSE acc)
\* c: g, start, msg, mode, enc_out, strand, ticks, gen_out ("ok" | exception), verts (as returned), fv_windows (booleans from the real
\*    filter on each window of start k-mer + strand), fv_strand, fv_full (booleans from the real whole-sequence check)
Judge(c) ==
  LET i == c.g  N == NOf(i)  k == Gs[i].k
      \* C04 speaks about the graph generation RETURNED: walk, degrees, vertex count are taken from it (c.ilive); the specification's
      \* retained set is used for the conformance note only
      live == IF c.ilive # <<>> THEN LiveFn(c.ilive) ELSE Lives[i]
      ret == IF c.ilive # <<>> THEN {u \in 0..(N - 1) : live[u] # {}} ELSE Rets[i]
      cfg == CfgOf(Gs[i].cfg)
      L == Len(c.msg)
      full == Kmer(c.start, k) \o c.strand
      wins == [j \in 1..(Len(full) - k + 1) |-> SubSeq(full, j, j + k - 1)]
      winOK(w) == IF Gs[i].src = "cfg" THEN WindowPredicate(cfg, w) ELSE ValueOf(w) \in MaskOf(i)
      walk == IsWalk(live, N, c.start, c.strand)
  IN IF c.gen_out # "ok" \/ ret = {} \/ c.start \notin ret \/ (c.mode = "fast" /\ \E u \in ret : Cardinality(live[u]) = 3) THEN <<"precondition-false">>
     ELSE (IF c.gen_out # "ok" \/ ToSet(c.verts) # Rets[i] \/ live # Lives[i] THEN <<"conformance:generated-graph-differs">> ELSE <<>>)
       \o (IF c.enc_out = "budget" \/ c.ticks > L * Cardinality(ret) + 1 THEN <<"termination-bound">> ELSE <<>>)
       \o (IF c.enc_out \notin {"ok", "budget"} THEN <<"encode-raises">> ELSE <<>>)
       \o (IF c.enc_out = "ok" /\ ~walk THEN <<"not-a-walk">> ELSE <<>>)
       \o (IF c.enc_out = "ok" /\ walk /\ c.strand # <<>> /\ DegreesAlong(live, N, c.start, c.strand)[Len(c.strand)] < 2
           THEN <<"last-step-carries-no-information">> ELSE <<>>)
       \o (IF c.enc_out = "ok" /\ walk /\ c.mode = "normal" /\
              ( (c.strand = <<>>) # IsZero(FromBits(c.msg))
                \/ (c.strand # <<>> /\ ~Leq(RadixLimbs(live, N, c.start, SubSeq(c.strand, 1, Len(c.strand) - 1), <<1>>), FromBits(c.msg)))
                \/ (Gs[i].t >= 2 /\ Len(c.strand) > L)
                \/ ((\A u \in ret : Cardinality(live[u]) = 4) /\ Len(c.strand) > (L + 1) \div 2) )
           THEN <<"not-tight">> ELSE <<>>)
       \o (IF c.enc_out = "ok" /\ walk /\ c.mode = "fast" /\
              Len(FastBitsAlong(live, N, [u \in 0..(N - 1) |-> Ident], c.start, c.strand)) \notin {L, L + 1}
           THEN <<"fast-bits-carried">> ELSE <<>>)
       \o (IF c.enc_out = "ok" /\ \E j \in 1..Len(wins) : ~winOK(wins[j]) THEN <<"window-violates-constraints">> ELSE <<>>)
       \o (IF c.enc_out = "ok" /\ \E j \in 1..Len(c.fv_windows) : ~c.fv_windows[j] THEN <<"filter-rejects-window">> ELSE <<>>)
       \o (IF c.enc_out = "ok" /\ Len(c.fv_windows) # Len(wins) THEN <<"machinery:window-count">> ELSE <<>>)
       \o (IF c.enc_out = "ok" /\ Gs[i].src = "cfg" /\ WindowDecidable(cfg) /\ (~c.fv_strand \/ ~c.fv_full)
           THEN <<"whole-sequence-check-fails">> ELSE <<>>)
Check == /\ verdict = <<>> /\ verdict' = (LET v == Judge(Cases[cid]) IN IF v = <<>> THEN <<"ok">> ELSE v)
         /\ PrintT(ToJson([cid |-> cid, verdict |-> verdict'])) /\ UNCHANGED cid
Next == Check
Spec == Init /\ [][Next]_vars
=============================================================================
