CONSTANTS KPred = 2
Cfgs <- CfgsThorough
EmitMod = 1
INIT Init
NEXT Next
INVARIANT ValidDef
INVARIANT FindDef
INVARIANT Emit
CHECK_DEADLOCK FALSE
