CONSTANTS K = 2
InitLives <- Lives2
EmitOn = TRUE
INIT Init
NEXT Next
INVARIANT ViewsAgree
INVARIANT WellFormed
PROPERTY ArcStep
INVARIANT ScoresShape
INVARIANT Emit
CHECK_DEADLOCK FALSE
