CONSTANTS Graphs <- G2Quick
Source = "strings"
WalkLen = 0
NEdits = 0
MaxLen = 5
Heaps <- H0
EmitOn = FALSE
INIT Init
NEXT Next
INVARIANT Witness2
CHECK_DEADLOCK FALSE
