CONSTANTS MaxLen = 8
MaxN = 5
NbLen = 4
EmitOn = TRUE
INIT Init
NEXT Next
INVARIANT Shape
INVARIANT CodeIsDoc
INVARIANT EditsChange
INVARIANT FlagSeparates
INVARIANT EmptyDefined
INVARIANT Emit
CHECK_DEADLOCK FALSE
