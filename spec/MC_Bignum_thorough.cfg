CONSTANTS MaxDigits = 4
EmitOn = TRUE
INIT Init
NEXT Next
INVARIANT StepInv
INVARIANT RunAgrees
INVARIANT Exact
INVARIANT Bounded
INVARIANT Emit
CHECK_DEADLOCK FALSE
