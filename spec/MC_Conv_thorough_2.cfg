CONSTANTS MaxLen = 14
Base = 2
EmitOn = TRUE
INIT Init
NEXT Next
INVARIANT PathsAgree
INVARIANT RoundTrip
INVARIANT WiderPads
INVARIANT Below
INVARIANT Emit
CHECK_DEADLOCK FALSE
