CONSTANTS K = 2
MaxBrute = 0
CheckMono = FALSE
EmitOn = FALSE
INIT Init
NEXT Next
INVARIANT Witness
CHECK_DEADLOCK FALSE
