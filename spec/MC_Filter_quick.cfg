CONSTANTS MaxLen = 4
Cfgs <- CfgsQuick
EmitOn = TRUE
INIT Init
NEXT Next
INVARIANT LastWindow
INVARIANT WindowConj
INVARIANT RevCompInv
INVARIANT SubstrOfValidWindow
INVARIANT Emit
CHECK_DEADLOCK FALSE
