CONSTANTS MaxLen = 4
Cfgs <- CfgsQuick
EmitOn = FALSE
INIT Init
NEXT Next
INVARIANT Witness2
CHECK_DEADLOCK FALSE
