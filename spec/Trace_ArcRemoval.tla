---------------------------- MODULE Trace_ArcRemoval ----------------------------
(* Code -> spec for C19: every returning remove_nasty_arc call of recorded call sequences (and one call from every     *)
(* state of MC_ArcRemoval) is judged from the state before the call: exactly one existing arc disappears, it has the   *)
(* maximum intersection score, nothing else changes in either view, the views still agree; recorded score matrices     *)
(* are compared with the specification's.                                                                             *)
EXTENDS Score, TLC, Json, IOUtils
Data == JsonDeserialize(IOEnv.TRACE_FILE)
Cases == Data.cases
VARIABLES cid, verdict
vars == <<cid, verdict>>
Init == cid \in 1..Len(Cases) /\ verdict = <<>>
AccFn(rows, N) == [v \in 0..(N - 1) |-> [j \in 0..3 |-> rows[v + 1][j + 1]]]
LmFn(pairs) == [v \in {pairs[i][1] : i \in 1..Len(pairs)} |-> (CHOOSE i \in 1..Len(pairs) : pairs[i][1] = v) ]
LmOf(pairs) == LET idx == LmFn(pairs) IN [v \in DOMAIN idx |-> pairs[idx[v]][2]]
\* two latter maps describe the same graph: same keys, same successor sets, no duplicates (the order inside a list is not specified)
SameLmap(a, b) == DOMAIN a = DOMAIN b /\ \A v \in DOMAIN a : ToSet(a[v]) = ToSet(b[v]) /\ Len(a[v]) = Len(b[v])
\* c: k, live (before), ins, del, scores (recorded before the call, N x 4), out, removed = <<former, latter>>, acc_after (N x 4 rows),
\*    lmap_after (list of <<v, successors>>), dup (the latter map listed some key twice)
Judge(c) ==
  LET N == 4^c.k
      live == LiveFn(c.live)
      acc == AccFnOfLive(live, N)
      lm == LmapOfAcc(acc, N)
      m == ScoreMatrix(lm, N, c.k, c.ins, c.del)
      rec == [v \in 0..(N - 1) |-> [j \in 0..3 |-> c.scores[v + 1][j + 1]]]
      shapeOK == Len(c.scores) = N /\ \A i \in 1..N : Len(c.scores[i]) = 4
  IN (IF ~shapeOK THEN <<"scores-shape">>
      ELSE (IF \E v \in 0..(N - 1), j \in 0..3 : rec[v][j] > 0 /\ j \notin live[v] THEN <<"positive-score-off-arc">> ELSE <<>>)
        \o (IF rec # m THEN <<"score-function">> ELSE <<>>))
     \o (IF c.out # "ok" THEN <<>>                      \* calls that do not return are outside the property
         ELSE LET a == <<c.removed[1], c.removed[2]>>
                  after == AccFn(c.acc_after, N)
                  lma == LmOf(c.lmap_after) IN
              (IF a \notin ArcsOfAcc(acc, N) THEN <<"removed-arc-did-not-exist">>
               ELSE (IF m[a[1]][a[2] % 4] # MaxOf(m, N) THEN <<"removed-arc-not-maximal">> ELSE <<>>)
                 \o (IF after # AccRemove(acc, a[1], a[2]) THEN <<"accessor-changed-elsewhere">> ELSE <<>>)
                 \o (IF c.dup \/ ~SameLmap(lma, LmapRemove(lm, a[1], a[2])) THEN <<"latter-map-changed-elsewhere">> ELSE <<>>))
              \o (IF Cardinality(ArcsOfAcc(after, N)) # Cardinality(ArcsOfAcc(acc, N)) - 1 THEN <<"not-exactly-one-arc">> ELSE <<>>)
              \o (IF c.dup \/ ~SameLmap(LmapOfAcc(after, N), lma) THEN <<"views-disagree">> ELSE <<>>))
Check == /\ verdict = <<>> /\ verdict' = (LET v == Judge(Cases[cid]) IN IF v = <<>> THEN <<"ok">> ELSE v)
         /\ PrintT(ToJson([cid |-> cid, verdict |-> verdict'])) /\ UNCHANGED cid
Next == Check
Spec == Init /\ [][Next]_vars
=============================================================================
