---------------------------- MODULE Ind_Add ----------------------------
(* Apalache inductive lemma (unbounded integers): digit-serial addition of one digit, least significant digit first - the      *)
(* step of Bignum!AddStep: pout + carry * pow = pin + a with carry in 0..1 is inductive for an arbitrary next digit.            *)
EXTENDS Integers
\* Digit-serial addition of a single digit a to a decimal string, least significant digit first:
\* the operand digit is added at the first position only, afterwards only the carry propagates.
VARIABLES
  \* @type: Int;
  a,
  \* @type: Int;
  pin,
  \* @type: Int;
  pout,
  \* @type: Int;
  pow,
  \* @type: Int;
  carry,
  \* @type: Bool;
  first
Init == a \in 0..9 /\ pin = 0 /\ pout = 0 /\ pow = 1 /\ carry = 0 /\ first = TRUE
Step == \E d \in 0..9 :
          LET cur == d + (IF first THEN a ELSE 0) + carry IN
          /\ pin' = pin + d * pow
          /\ pout' = pout + (cur % 10) * pow
          /\ carry' = cur \div 10
          /\ pow' = pow * 10
          /\ first' = FALSE /\ a' = a
Next == Step
IndInv == /\ a \in 0..9 /\ carry \in 0..1 /\ pow >= 1 /\ pin >= 0 /\ pout >= 0
          /\ (first => pin = 0 /\ pout = 0 /\ carry = 0 /\ pow = 1)
          /\ (~first => pout + carry * pow = pin + a)
IndInit == a \in 0..9 /\ carry \in 0..1 /\ pow \in Nat /\ pin \in Nat /\ pout \in Nat /\ first \in BOOLEAN /\ IndInv
=============================================================================
