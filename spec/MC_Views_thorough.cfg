CONSTANTS K = 1
MaxDepth = 3
Patterns <- AllPatterns
EmitOn = TRUE
INIT Init
NEXT Next
INVARIANT RoundTrips
INVARIANT Contents
INVARIANT LeavesAgree
INVARIANT Emit
CHECK_DEADLOCK FALSE
