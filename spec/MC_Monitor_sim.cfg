SPECIFICATION Spec
CONSTANTS
  Totals = {1, 2, 3, 7, 10, 20, 100}
  Steps = {0, 7, 3700}
  KeepHist = TRUE
  MaxElapsed = 100000
  MaxLen = 8
CONSTRAINT Bound
INVARIANT TypeOK
INVARIANT Shape
INVARIANT Emit
CHECK_DEADLOCK FALSE
