CONSTANTS KMax = 7
EmitOn = TRUE
INIT Init
NEXT Next
INVARIANT C13Holds
INVARIANT PredIffSucc
INVARIANT Emit
CHECK_DEADLOCK FALSE
