---------------------------- MODULE Repair ----------------------------
(* dsw.spiderweb.repair_dna and dsw.graphized.path_matching as the code performs them: the scan loop (one ScanStep    *)
(* per iteration), the k-state look-back with saturation substitution / insertion / deletion, the candidate product   *)
(* and the check filter.  Python's slice semantics (negative indices wrap, out-of-range clamps) are kept because the  *)
(* code relies on them near the strand ends.  Properties C08, C09, C10.                                               *)
EXTENDS DeBruijn, VT

Clamp(i, n) == IF i < 0 THEN (IF i + n < 0 THEN 0 ELSE i + n) ELSE (IF i > n THEN n ELSE i)
PySlice(s, a, b) == LET n == Len(s) a2 == Clamp(a, n) b2 == Clamp(b, n) IN
                    IF a2 >= b2 THEN <<>> ELSE SubSeq(s, a2 + 1, b2)
\* accessor[-1] is the last row in Python; index_queue holds -1 for cells the scan never wrote
Row(N, v) == IF v < 0 THEN v + N ELSE v
LiveAt(live, N, v) == live[Row(N, v)]

\* walk from vertex u over s; <<reached the end, number of successful steps>>
RECURSIVE WalkFrom(_, _, _, _, _)
WalkFrom(live, N, u, s, cnt) ==
  IF s = <<>> THEN <<TRUE, cnt>>
  ELSE IF Head(s) \in LiveAt(live, N, u) THEN WalkFrom(live, N, Succ(N, Row(N, u), Head(s)), Tail(s), cnt + 1)
  ELSE <<FALSE, cnt>>

InsAt0(s, i, x) == SubSeq(s, 1, i) \o <<x>> \o SubSeq(s, i + 1, Len(s))   \* i = 0-based position
RemAt0(s, i) == SubSeq(s, 1, i) \o SubSeq(s, i + 2, Len(s))
ReplaceAt0(s, i, x) == [s EXCEPT ![i + 1] = x]

\* path_matching(chunk, accessor, previous_index = prev, occur_location = occ, has_indel = indel)
PathMatch(live, N, chunk, prev, occ, indel) ==
  LET L == LiveAt(live, N, prev)
      pv == Row(N, prev)
      orig == chunk[occ + 1]
      rest1 == SubSeq(chunk, occ + 2, Len(chunk))
      rest0 == SubSeq(chunk, occ + 1, Len(chunk))
      subs == {r \in L \ {orig} : WalkFrom(live, N, Succ(N, pv, r), rest1, 0)[1]}
      subsV == FoldSet(LAMBDA r, acc : acc + WalkFrom(live, N, Succ(N, pv, r), rest1, 0)[2], 0, L \ {orig})
      ins == IF indel THEN {a \in L : WalkFrom(live, N, Succ(N, pv, a), rest0, 0)[1]} ELSE {}
      insV == IF indel THEN FoldSet(LAMBDA a, acc : acc + WalkFrom(live, N, Succ(N, pv, a), rest0, 0)[2], 0, L) ELSE 0
      del == IF indel THEN WalkFrom(live, N, prev, rest1, 0) ELSE <<FALSE, 0>>
  IN [frags |-> {ReplaceAt0(chunk, occ, r) : r \in subs}
                \cup {InsAt0(chunk, occ, a) : a \in ins}
                \cup (IF del[1] THEN {RemAt0(chunk, occ)} ELSE {}),
      visited |-> subsV + insV + del[2]]

\* the public result of path_matching, in the order the code produces it: substitutions by nucleotide, then insertions by
\* nucleotide, then the deletion; each entry <<kind, position, nucleotide, repaired string>>
PathMatchRecords(live, N, chunk, prev, occ, indel) ==
  LET L == LiveAt(live, N, prev)
      pv == Row(N, prev)
      orig == chunk[occ + 1]
      rest1 == SubSeq(chunk, occ + 2, Len(chunk))
      rest0 == SubSeq(chunk, occ + 1, Len(chunk))
      order == SetToSortSeq(L, <)
      subs == SelectSeq(order, LAMBDA r : r # orig /\ WalkFrom(live, N, Succ(N, pv, r), rest1, 0)[1])
      ins == IF indel THEN SelectSeq(order, LAMBDA a : WalkFrom(live, N, Succ(N, pv, a), rest0, 0)[1]) ELSE <<>>
      del == indel /\ WalkFrom(live, N, prev, rest1, 0)[1]
  IN [i \in 1..Len(subs) |-> <<"S", occ, subs[i], ReplaceAt0(chunk, occ, subs[i])>>]
     \o [i \in 1..Len(ins) |-> <<"I", occ, ins[i], InsAt0(chunk, occ, ins[i])>>]
     \o (IF del THEN << <<"D", occ, orig, RemAt0(chunk, occ)>> >> ELSE <<>>)

\* ---- the scan loop: st = [loc, v, iq, segs, chunks, markers, det, visited, ticks]
ScanInit(start, n) == [loc |-> 0, v |-> start, iq |-> [i \in 1..n |-> -1], segs |-> << <<>> >>, chunks |-> <<>>,
                       markers |-> <<>>, det |-> 0, visited |-> 0, ticks |-> 0]
ScanDone(dna, st) == st.loc >= Len(dna)
ScanStep(live, N, k, dna, st) ==
  LET c == dna[st.loc + 1] IN
  IF c \in LiveAt(live, N, st.v) THEN
     LET nv == Succ(N, Row(N, st.v), c) IN
     [st EXCEPT !.segs = [@ EXCEPT ![Len(@)] = Append(@, c)], !.v = nv,
                !.iq = [@ EXCEPT ![st.loc + 1] = nv], !.visited = @ + 1, !.loc = @ + 1, !.ticks = @ + 1]
  ELSE
     LET nv == ValueOf(PySlice(dna, st.loc + 1, st.loc + k + 1))
         seg == st.segs[Len(st.segs)] IN
     [st EXCEPT !.det = @ + 1,
                !.segs = Append([@ EXCEPT ![Len(@)] = PySlice(seg, 0, Len(seg) - k + 1)], <<nv % 4>>),
                !.v = nv,
                !.markers = Append(@, PySlice(st.iq, st.loc - k, st.loc)),
                !.chunks = Append(@, PySlice(dna, st.loc - k + 1, st.loc + k)),
                !.loc = @ + k + 1, !.ticks = @ + 1]
RECURSIVE Scan(_, _, _, _, _)
Scan(live, N, k, dna, st) == IF ScanDone(dna, st) THEN st ELSE Scan(live, N, k, dna, ScanStep(live, N, k, dna, st))

\* what the scan loop looks like at the head of every iteration: <<location, vertex, length of the current segment>>
RECURSIVE ScanLog(_, _, _, _, _, _)
ScanLog(live, N, k, dna, st, acc) ==
  IF ScanDone(dna, st) THEN acc
  ELSE ScanLog(live, N, k, dna, ScanStep(live, N, k, dna, st), Append(acc, <<st.loc, st.v, Len(st.segs[Len(st.segs)])>>))
Rev(s) == [i \in 1..Len(s) |-> s[Len(s) + 1 - i]]
FragsFor(live, N, k, chunk, marker, indel) ==
  LET rm == Rev(marker)
      res == [r \in 1..Len(rm) |-> PathMatch(live, N, chunk, rm[r], k - (r - 1) - 1, indel)]
  IN [frags |-> UNION {res[r].frags : r \in 1..Len(rm)},
      visited |-> FoldLeft(LAMBDA acc, x : acc + x.visited, 0, res)]

\* lexicographic order of Python strings over A<C<G<T (a proper prefix sorts first)
LexLess(a, b) == \E i \in 1..(Len(a) + 1) :
                   /\ \A j \in 1..(i - 1) : j <= Len(b) /\ a[j] = b[j]
                   /\ \/ (i = Len(a) + 1 /\ Len(b) >= i)
                      \/ (i <= Len(a) /\ i <= Len(b) /\ a[i] < b[i])
RECURSIVE Assemble(_, _, _)
Assemble(segs, frs, i) == IF i > Len(frs) THEN segs[i] ELSE segs[i] \o frs[i] \o Assemble(segs, frs, i + 1)
RECURSIVE Product(_)
Product(sets) == IF sets = <<>> THEN { <<>> }
                 ELSE { <<x>> \o rest : x \in Head(sets), rest \in Product(Tail(sets)) }
VtOk(s, vt) == vt = <<>> \/ VT(s, Len(vt)) = vt

CountCap == 1000000
\* everything after the scan: look-back, product, check filter.  heap = -1 stands for "unrestricted", any other value is the literal limit
\* (a limit of 0 sends every input to the fallback path)
Finish(live, N, k, dna, vt, indel, heap, st) ==
  LET fr == [i \in 1..Len(st.markers) |-> FragsFor(live, N, k, st.chunks[i], st.markers[i], indel)]
      sizes == [i \in 1..Len(fr) |-> Cardinality(fr[i].frags)]
      \* saturating product (TLC integers are 32-bit): anything above CountCap is "more than any heap limit in use"
      count == FoldLeft(LAMBDA a, x : IF x = 0 THEN 0 ELSE IF a > CountCap \div x THEN CountCap + 1 ELSE a * x, 1, sizes)
      vis == st.visited + FoldLeft(LAMBDA a, x : a + x.visited, 0, fr)
  IN IF count = 0 \/ (heap >= 0 /\ count > heap) THEN
        [cands |-> IF VtOk(dna, vt) THEN <<dna>> ELSE <<>>, det |-> 0, flag |-> ~VtOk(dna, vt), count |-> 0, visited |-> vis]
     ELSE LET all == {Assemble(st.segs, t, 1) : t \in Product([i \in 1..Len(fr) |-> fr[i].frags])}
              good == {s \in all : VtOk(s, vt)}
          IN [cands |-> SetToSortSeq(good, LexLess), det |-> st.det, flag |-> (good # all), count |-> count, visited |-> vis]
RepairOp(live, N, k, dna, start, vt, indel, heap) == Finish(live, N, k, dna, vt, indel, heap, Scan(live, N, k, dna, ScanInit(start, Len(dna))))

\* ---- edits (positions refer to the original walk; applied right to left)
Apply1(w, e) == IF e[1] = "S" THEN [w EXCEPT ![e[2] + 1] = e[3]]
                ELSE IF e[1] = "I" THEN SubSeq(w, 1, e[2]) \o <<e[3]>> \o SubSeq(w, e[2] + 1, Len(w))
                ELSE SubSeq(w, 1, e[2]) \o SubSeq(w, e[2] + 2, Len(w))
RECURSIVE ApplyAll(_, _)
ApplyAll(w, es) == IF es = <<>> THEN w ELSE ApplyAll(Apply1(w, es[Len(es)]), SubSeq(es, 1, Len(es) - 1))
\* the edit sets C08 speaks about: positions in [k, n-2k), pairwise >= 3k+2 apart, ascending, substitutions change the symbol
Admissible(w, es, k) ==
  /\ \A i \in 1..Len(es) : es[i][2] >= k /\ es[i][2] < Len(w) - 2 * k
  /\ \A i \in 1..Len(es) : ~(es[i][1] = "S" /\ es[i][3] = w[es[i][2] + 1])
  /\ \A i \in 1..(Len(es) - 1) : es[i + 1][2] - es[i][2] >= 3 * k + 2
StrictlySorted(cs) == \A i \in 1..(Len(cs) - 1) : LexLess(cs[i], cs[i + 1]) /\ cs[i] # cs[i + 1]
=============================================================================
