CONSTANTS MaxLen = 6
MaxN = 4
NbLen = 3
EmitOn = TRUE
INIT Init
NEXT Next
INVARIANT Shape
INVARIANT CodeIsDoc
INVARIANT EditsChange
INVARIANT FlagSeparates
INVARIANT EmptyDefined
INVARIANT Emit
CHECK_DEADLOCK FALSE
