CONSTANTS K = 1
MaxBrute = 4
CheckMono = TRUE
EmitOn = FALSE
INIT Init
NEXT Next
INVARIANT DoneClosed
PROPERTY Removed
INVARIANT RoundBound
INVARIANT MachineIsOperator
INVARIANT ErrorIffEmpty
INVARIANT Maximal
INVARIANT MonotoneStep
INVARIANT TwinAgrees
INVARIANT HasArcsIsAll
INVARIANT Emit
CHECK_DEADLOCK FALSE
