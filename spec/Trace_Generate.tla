---------------------------- MODULE Trace_Generate ----------------------------
(* Code -> spec for C03 and C11: recorded find_vertices / connect_valid_graph / connect_coding_graph /                 *)
(* latter_map_to_accessor(threshold) results on seeded filters and masks of orders 1..6, judged against Generate.tla. *)
EXTENDS Generate, TLC, Json, IOUtils
Data == JsonDeserialize(IOEnv.TRACE_FILE)
Cases == Data.cases
VARIABLES cid, verdict
vars == <<cid, verdict>>
Init == cid \in 1..Len(Cases) /\ verdict = "pending"
\* kind "coding": k, mask, t, out, verts, live, twin (live sets from the latter-map route, <<>> if not applicable), sup (0 or the
\*                index of a case on a super-mask with the same t)
JudgeCoding(c) ==
  LET N == 4^c.k
      R == CodingSet(N, ToSet(c.mask), c.t)
  IN IF R = {} THEN (IF c.out = "ValueError" THEN "ok" ELSE IF c.out = "ok" THEN "violation:graph-returned-where-none-exists"
                     ELSE "violation:wrong-exception-type")
     ELSE IF c.out # "ok" THEN "violation:error-on-non-empty-graph"
     ELSE IF ToSet(c.verts) # R \/ Len(c.verts) # Cardinality(R) THEN "violation:vertex-description"
     ELSE IF LiveFn(c.live) # LiveOfSet(N, R) THEN "violation:not-the-largest-closed-subgraph"
     ELSE IF c.t >= 2 /\ c.twin # <<>> /\ LiveFn(c.twin) # LiveOfSet(N, R) THEN "violation:latter-map-twin-differs"
     ELSE IF c.sup > 0 /\ Cases[c.sup].out = "ok" /\ ~(ToSet(c.verts) \subseteq ToSet(Cases[c.sup].verts)) THEN "violation:not-monotone"
     ELSE "ok"
\* kind "find": cfg (k, run, gc, motifs as list) or pred (accepted k-mer indices), out, verts (marked indices)
CfgOf(r) == [k |-> r.k, run |-> r.run, gc |-> r.gc, motifs |-> ToSet(r.motifs)]
JudgeFind(c) ==
  LET want == IF c.src = "cfg" THEN FindVertices(CfgOf(c.cfg)) ELSE ToSet(c.pred) IN
  IF want = {} THEN (IF c.out = "ValueError" THEN "ok" ELSE IF c.out = "ok" THEN "violation:mask-returned-for-empty-set" ELSE "violation:wrong-exception-type")
  ELSE IF c.out # "ok" THEN "violation:error-on-non-empty-set"
  ELSE IF ToSet(c.verts) # want \/ Len(c.verts) # Cardinality(want) THEN "violation:mask-differs-from-filter"
  ELSE "ok"
\* kind "valid": k, mask, out, live
JudgeValid(c) ==
  LET N == 4^c.k S == ToSet(c.mask) IN
  IF S = {} THEN (IF c.out = "ValueError" THEN "ok" ELSE IF c.out = "ok" THEN "violation:graph-returned-for-empty-mask" ELSE "violation:wrong-exception-type")
  ELSE IF c.out # "ok" THEN "violation:error-on-non-empty-mask"
  ELSE IF LiveFn(c.live) # LiveOfSet(N, S) THEN "violation:valid-graph-differs"
  ELSE "ok"
Judge(c) == CASE c.kind = "coding" -> JudgeCoding(c) [] c.kind = "find" -> JudgeFind(c) [] c.kind = "valid" -> JudgeValid(c)
Check == /\ verdict = "pending" /\ verdict' = Judge(Cases[cid])
         /\ PrintT(ToJson([cid |-> cid, verdict |-> verdict'])) /\ UNCHANGED cid
Next == Check
Spec == Init /\ [][Next]_vars
=============================================================================
