CONSTANTS K = 1
InitLives <- Lives1Small
EmitOn = FALSE
INIT Init
NEXT Next
INVARIANT Witness
CHECK_DEADLOCK FALSE
