CONSTANTS K = 1
MaxLen = 4
Patterns <- PD5
Patterns2 <- PQ3
Starts <- S01
Syms <- Sym5
Rows <- R1
Modes <- BothModes
Widths <- W4
ChkKinds <- CkAll
EmitOn = TRUE
INIT Init
NEXT Next
INVARIANT AcceptIffWalk
INVARIANT CheckAgrees
INVARIANT WalkValue
INVARIANT FastValue
INVARIANT Emit
CHECK_DEADLOCK FALSE
