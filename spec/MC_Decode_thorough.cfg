CONSTANTS K = 1
MaxLen = 4
Patterns <- PD5
Patterns2 <- PD5
Starts <- SAll
Syms <- Sym5
Rows <- R2
Modes <- BothModes
Widths <- W26
ChkKinds <- CkAll
EmitOn = TRUE
INIT Init
NEXT Next
INVARIANT AcceptIffWalk
INVARIANT CheckAgrees
INVARIANT WalkValue
INVARIANT FastValue
INVARIANT Emit
CHECK_DEADLOCK FALSE
