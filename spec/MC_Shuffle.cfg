INIT Init
NEXT Next
INVARIANT RowBijection
INVARIANT Count
INVARIANT IdentityIsOrder
INVARIANT FirstIsDigitArc
INVARIANT StillWalk
INVARIANT Emit
CHECK_DEADLOCK FALSE
