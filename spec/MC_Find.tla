---------------------------- MODULE MC_Find ----------------------------
(* C11: vertex discovery mirrors the filter (built-in configurations and arbitrary user predicates given as accepted  *)
(* sets of k-mers) and the valid graph is the vertex-induced sub-graph.                                              *)
EXTENDS Generate, TLC, Json, IOUtils
CONSTANTS KPred, Cfgs, EmitMod
Gcs == {<<>>, <<1, 1, 2>>, <<0, 1, 2>>, <<1, 3, 4>>, <<2, 3, 5>>}
MotifSets == {{}, {<<2, 1>>}, {<<0, 0>>}, {<<0, 3>>, <<1, 2, 1>>}, {<<3>>}}
CfgsQuick == {c \in {[k |-> k, run |-> r, gc |-> g, motifs |-> ms] : k \in 1..3, r \in 0..3, g \in Gcs, ms \in MotifSets} : CtorAccepts(c)}
CfgsThorough == {c \in {[k |-> k, run |-> r, gc |-> g, motifs |-> ms] : k \in 1..4, r \in 0..4, g \in Gcs, ms \in MotifSets \cup {{<<0, 2, 2, 1>>}}} : CtorAccepts(c)}
NP == 4^KPred
VARIABLES src, pred, cfg
NoCfg == [k |-> 0, run |-> 0, gc |-> <<>>, motifs |-> {}]
Init == \/ (src = "pred" /\ pred \in SUBSET (0..(NP - 1)) /\ cfg = NoCfg)
        \/ (src = "cfg" /\ cfg \in Cfgs /\ pred = {})
Next == FALSE /\ UNCHANGED <<src, pred, cfg>>
K == IF src = "pred" THEN KPred ELSE cfg.k
N == 4^K
Marked == IF src = "pred" THEN pred ELSE FindVertices(cfg)
\* the valid graph has an arc u -> v exactly when both are marked and v is a shift successor of u, in the column of v's last nucleotide
ValidDef == LET M == Marked NN == N L == LiveOfSet(NN, M) IN
            \A u \in 0..(NN - 1), j \in 0..3 :
              (j \in L[u]) <=> (u \in M /\ Succ(NN, u, j) \in M /\ Succ(NN, u, j) % 4 = j)
FindDef == src = "cfg" => LET M == Marked IN \A v \in 0..(N - 1) : (v \in M) <=> WindowPredicate(cfg, Kmer(v, K))
Witness == ~(src = "cfg" /\ cfg.k = 3 /\ cfg.gc # <<>> /\ cfg.motifs # {} /\ Cardinality(Marked) \in 5..20)
Key == IF src = "cfg" THEN 0 ELSE Cardinality(pred) + 3 * FoldSet(LAMBDA x, a : a + x, 0, pred)
Slot == IF EmitMod = 1 THEN 0 ELSE atoi(IOEnv.VERIF_SLOT) % EmitMod
Emit == (src = "cfg" \/ Key % EmitMod = Slot) =>
          LET M == Marked NN == N L == LiveOfSet(NN, M) IN
          PrintT(ToJson([src |-> src, k |-> K, cfg |-> [k |-> cfg.k, run |-> cfg.run, gc |-> cfg.gc, motifs |-> SetToSeq(cfg.motifs)],
                         marked |-> SetToSortSeq(M, <),
                         live |-> [i \in 1..NN |-> SetToSortSeq(L[i - 1], <)]]))
=============================================================================
