CONSTANTS K = 2
MaxBrute = 7
CheckMono = TRUE
EmitOn = TRUE
INIT Init
NEXT Next
INVARIANT DoneClosed
PROPERTY Removed
INVARIANT RoundBound
INVARIANT MachineIsOperator
INVARIANT ErrorIffEmpty
INVARIANT Maximal
INVARIANT MonotoneStep
INVARIANT TwinAgrees
INVARIANT HasArcsIsAll
INVARIANT Emit
CHECK_DEADLOCK FALSE
