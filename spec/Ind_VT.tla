---------------------------- MODULE Ind_VT ----------------------------
(* Apalache lemma (unbounded integers): the nucleotide-sum flag of the path check separates every single edit (C07).            *)
EXTENDS Integers
\* Why the first symbol of the path check (nucleotide sum modulo 4) sees every single substitution and every single insertion or
\* deletion of C, G or T, for a strand of ANY length: s is the (unbounded) sum of the untouched nucleotides, a the old symbol, b the
\* new one (substitution: a # b; insertion of c: a = 0 "nothing", b = c in 1..3; deletion likewise with roles swapped).
VARIABLES
  \* @type: Int;
  s,
  \* @type: Int;
  a,
  \* @type: Int;
  b
Init == s \in Nat /\ a \in 0..3 /\ b \in 0..3 /\ a # b
Next == UNCHANGED <<s, a, b>>
IndInv == /\ s >= 0 /\ a \in 0..3 /\ b \in 0..3 /\ a # b
          /\ (s + a) % 4 # (s + b) % 4
IndInit == Init
=============================================================================
