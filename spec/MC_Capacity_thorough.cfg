CONSTANTS Source = "enum"
Patterns <- AllPatterns
EmitOn = TRUE
INIT Init
NEXT Next
INVARIANT Le4
INVARIANT RegExact
INVARIANT CwOk
PROPERTY LoUp
PROPERTY HiDown
INVARIANT ArcLessZero
INVARIANT Emit
CHECK_DEADLOCK FALSE
