---------------------------- MODULE Bignum ----------------------------
(* Decimal string arithmetic of dsw/operation.py as digit-serial machines (property C15) and the bit/DNA <-> number  *)
(* conversions built on top of them (property C16).                                                                  *)
(* Decimal strings are sequences over 0..9, most significant first; canonical = no leading zero except <<0>>.        *)
(* Each machine mirrors the control flow of the code: `st` is the loop state, one Step per loop iteration.          *)
EXTENDS Naturals, Integers, Sequences, FiniteSets, SequencesExt, FiniteSetsExt, Functions

StripLead(ds) == LET nz == {i \in 1..Len(ds) : ds[i] # 0} IN
                 IF nz = {} THEN <<0>> ELSE SubSeq(ds, Min(nz), Len(ds))
IsCanon(ds) == Len(ds) >= 1 /\ (\A i \in 1..Len(ds) : ds[i] \in 0..9) /\ (Len(ds) > 1 => ds[1] # 0)
ValueOf10(ds) == FoldLeft(LAMBDA acc, d : 10 * acc + d, 0, ds)
Pow10(n) == 10^n
PosClass(i, n) == IF n = 1 THEN "only" ELSE IF i = 1 THEN "first" ELSE IF i = n THEN "last" ELSE "middle"

\* ---- calculus_addition(number, base): base is one digit, zero-filled to len(number); the result has len+1 cells.
\* Loop index runs from the last digit to the first; a sum >= 10 is written over two cells (digit and carry).
AddInit(num, b) == [i |-> Len(num), r |-> [j \in 1..(Len(num) + 1) |-> 0], num |-> num, b |-> b]
AddDone(st) == st.i = 0
AddStep(st) ==
  LET i == st.i
      opd == IF i = Len(st.num) THEN st.b ELSE 0
      sum == st.num[i] + opd + st.r[i + 1]
  IN IF sum < 10 THEN [st EXCEPT !.r = [@ EXCEPT ![i + 1] = sum], !.i = i - 1]
     ELSE [st EXCEPT !.r = [@ EXCEPT ![i + 1] = sum % 10, ![i] = sum \div 10], !.i = i - 1]
AddLabel(st) == <<"add", st.r[st.i + 1], st.num[st.i], IF st.i = Len(st.num) THEN st.b ELSE 0, PosClass(st.i, Len(st.num))>>
AddOut(st) == IF st.r[1] # 0 THEN st.r ELSE SubSeq(st.r, 2, Len(st.r))      \* strips exactly one leading zero
RECURSIVE AddRun(_)
AddRun(st) == IF AddDone(st) THEN AddOut(st) ELSE AddRun(AddStep(st))
Add(num, b) == AddRun(AddInit(num, b))
\* refinement: cells right of the cursor hold the low digits, the cell at the cursor holds the carry
AddInv(st) == LET n == Len(st.num) i == st.i IN
              /\ st.r[i + 1] \in 0..1
              /\ ValueOf10(SubSeq(st.r, i + 1, n + 1)) = ValueOf10(SubSeq(st.num, i + 1, n)) + (IF i < n THEN st.b ELSE 0)

\* ---- calculus_multiplication(number, base)
MulInit(num, b) == [num |-> num, b |-> b, c |-> 0, i |-> Len(num), n0 |-> num]
MulDone(st) == st.i = 0
MulStep(st) == LET cur == st.num[st.i] * st.b + st.c IN
               [st EXCEPT !.num = [@ EXCEPT ![st.i] = cur % 10], !.c = cur \div 10, !.i = @ - 1]
MulLabel(st) == <<"mul", st.c, st.num[st.i], st.b, PosClass(st.i, Len(st.num))>>
RECURSIVE TrailCarry(_, _)
TrailCarry(num, c) == IF c > 0 THEN TrailCarry(<<c % 10>> \o num, c \div 10) ELSE num    \* the trailing while loop
MulOut(st) == TrailCarry(st.num, st.c)
RECURSIVE MulRun(_)
MulRun(st) == IF MulDone(st) THEN MulOut(st) ELSE MulRun(MulStep(st))
Mul(num, b) == IF b = 0 THEN <<0>> ELSE IF b = 1 THEN num ELSE MulRun(MulInit(num, b))
MulInv(st) == LET n == Len(st.num) i == st.i IN
              /\ st.c \in 0..8
              /\ ValueOf10(SubSeq(st.num, i + 1, n)) + st.c * Pow10(n - i) = ValueOf10(SubSeq(st.n0, i + 1, n)) * st.b

\* ---- calculus_division(number, base) -> <<quotient, remainder>>
DivInit(num, b) == [num |-> num, b |-> b, q |-> <<>>, rem |-> 0, i |-> 1]
DivDone(st) == st.i > Len(st.num)
DivStep(st) == LET cur == st.num[st.i] + st.rem * 10 IN
               IF cur >= st.b THEN [st EXCEPT !.q = Append(@, cur \div st.b), !.rem = cur - (cur \div st.b) * st.b, !.i = @ + 1]
               ELSE [st EXCEPT !.q = Append(@, 0), !.rem = cur, !.i = @ + 1]
DivLabel(st) == <<"div", st.rem, st.num[st.i], st.b, PosClass(st.i, Len(st.num))>>
DivOut(st) == <<StripLead(st.q), st.rem>>
RECURSIVE DivRun(_)
DivRun(st) == IF DivDone(st) THEN DivOut(st) ELSE DivRun(DivStep(st))
Div(num, b) == IF b = 0 THEN << <<0>>, 0 >> ELSE IF b = 1 THEN <<num, 0>>
               ELSE IF Len(num) = 1 /\ num[1] < b THEN << <<0>>, num[1] >>
               ELSE DivRun(DivInit(num, b))
DivInv(st) == /\ st.rem \in 0..(st.b - 1)
              /\ ValueOf10(SubSeq(st.num, 1, st.i - 1)) = ValueOf10(st.q) * st.b + st.rem

\* ---- calculus_subtraction(number, base), single-digit base, result >= 0: the last digit is compared; on a borrow
\* the zeros to the left become 9 and the first non-zero digit is decremented (one step per visited digit)
SubInit(num, b) == [num |-> num, b |-> b, j |-> Len(num) - 1, ph |-> IF num[Len(num)] >= b THEN "out" ELSE "borrow",
                    last |-> IF num[Len(num)] >= b THEN num[Len(num)] - b ELSE 10 + num[Len(num)] - b]
SubDone(st) == st.ph = "out"
SubStep(st) == IF st.num[st.j] = 0 THEN [st EXCEPT !.num = [@ EXCEPT ![st.j] = 9], !.j = @ - 1]
               ELSE [st EXCEPT !.num = [@ EXCEPT ![st.j] = @ - 1], !.ph = "out"]
SubLabel(st) == <<"sub", 1, st.num[st.j], st.b, PosClass(st.j, Len(st.num))>>
SubOut(st) == StripLead(SubSeq(st.num, 1, Len(st.num) - 1) \o <<st.last>>)
RECURSIVE SubRun(_)
SubRun(st) == IF SubDone(st) THEN SubOut(st) ELSE SubRun(SubStep(st))
Sub(num, b) == SubRun(SubInit(num, b))

\* ---- conversions (C16): string path built from the machines, int path from Nat
StrOfSeq(seq, base) == FoldLeft(LAMBDA acc, x : Add(Mul(acc, base), x), <<0>>, seq)      \* bit_to_number / dna_to_number, is_string=True
IntOfSeq(seq, base) == FoldLeft(LAMBDA acc, x : acc * base + x, 0, seq)                  \* is_string=False
RECURSIVE DigitsOfStr(_, _)
DigitsOfStr(n, base) == IF n = <<0>> THEN <<>> ELSE LET qr == Div(n, base) IN Append(DigitsOfStr(qr[1], base), qr[2])
RECURSIVE DigitsOfInt(_, _)
DigitsOfInt(n, base) == IF n = 0 THEN <<>> ELSE Append(DigitsOfInt(n \div base, base), n % base)
\* number_to_bit truncates to the first w digits when too long, number_to_dna does not
PadW(ds, w, truncate) == IF Len(ds) <= w THEN [i \in 1..(w - Len(ds)) |-> 0] \o ds
                         ELSE IF truncate THEN SubSeq(ds, 1, w) ELSE ds
RECURSIVE DecOf(_)
DecOf(n) == IF n < 10 THEN <<n>> ELSE Append(DecOf(n \div 10), n % 10)
=============================================================================
