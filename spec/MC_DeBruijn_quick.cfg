CONSTANTS KMax = 6
EmitOn = TRUE
INIT Init
NEXT Next
INVARIANT C13Holds
INVARIANT PredIffSucc
INVARIANT Emit
CHECK_DEADLOCK FALSE
