CONSTANTS MaxLen = 4
Base = 2
EmitOn = FALSE
INIT Init
NEXT Next
INVARIANT Witness
CHECK_DEADLOCK FALSE
