---------------------------- MODULE MC_Coding ----------------------------
(* Encode -> (check) -> decode on every order-K graph whose per-vertex live sets come from Patterns, every start,    *)
(* a family of shuffle tables, every message up to MaxBits bits, both modes.  Properties C01, C05 (and C04's          *)
(* clauses on arbitrary well-formed graphs).                                                                         *)
EXTENDS Coding, TLC, Json, IOUtils
CONSTANTS K, MaxBits, Patterns, Tables, Modes, VtLens, EmitOn, EmitMod
N == 4^K
V == 0..(N - 1)
P6 == {{0}, {1, 3}, {0, 1, 2}, {0, 1, 2, 3}, {2, 3}, {3}}
P5 == {{0}, {1, 3}, {0, 1, 2}, {0, 1, 2, 3}, {2, 3}}
P16 == (SUBSET (0..3)) \ {{}}
T1 == {<<0, 1, 2, 3>>}
T3 == {<<0, 1, 2, 3>>, <<3, 2, 1, 0>>, <<2, 0, 3, 1>>}
T6 == T3 \cup {<<1, 0, 3, 2>>, <<1, 2, 3, 0>>, <<3, 0, 1, 2>>}
BothModes == {"normal", "fast"}
OnlyNormal == {"normal"}
Vt0 == {0}
Vt03 == {0, 3}
Vt012 == {0, 1, 2}
BitSeqs == UNION {[1..n -> {0, 1}] : n \in 0..MaxBits}
MixedTable == [u \in V |-> IF u % 2 = 0 THEN <<1, 3, 0, 2>> ELSE <<3, 0, 2, 1>>]
VARIABLES live, tbl, start, msg, mode, vtlen, pc, e, d
vars == <<live, tbl, start, msg, mode, vtlen, pc, e, d>>
Init == /\ live \in [V -> Patterns] /\ start \in V /\ WellFormedFrom(live, N, start)
        /\ tbl \in ({[u \in V |-> t] : t \in Tables} \cup {MixedTable})
        /\ msg \in BitSeqs /\ mode \in Modes /\ vtlen \in VtLens
        /\ (mode = "fast" => NoDeg3From(live, N, start))
        /\ pc = "enc" /\ e = EncInit(start, msg) /\ d = DecInit(start)
Chk == IF vtlen > 0 THEN VT(e.strand, vtlen) ELSE <<>>
Enc == /\ pc = "enc" /\ e.out = "run" /\ e' = EncStep(live, N, tbl, msg, mode, e)
       /\ UNCHANGED <<live, tbl, start, msg, mode, vtlen, pc, d>>
EncEnd == /\ pc = "enc" /\ e.out # "run" /\ pc' = (IF e.out = "ok" THEN "dec" ELSE "encfail")
          /\ UNCHANGED <<live, tbl, start, msg, mode, vtlen, e, d>>
Dec == /\ pc = "dec" /\ d.ph # "done" /\ d' = DecStep(live, N, tbl, e.strand, Chk, mode, Len(msg), d)
       /\ UNCHANGED <<live, tbl, start, msg, mode, vtlen, pc, e>>
DecEnd == /\ pc = "dec" /\ d.ph = "done" /\ pc' = "done" /\ UNCHANGED <<live, tbl, start, msg, mode, vtlen, e, d>>
Next == Enc \/ EncEnd \/ Dec \/ DecEnd
Spec == Init /\ [][Next]_vars
WFAgree == (pc = "enc" /\ e.ticks = 0 /\ e.out = "run") => (WellFormedFrom(live, N, start) = WellFormedFast(live, N, start))
\* ---- C01
RoundTrip == pc = "done" => d.out = "ok" /\ d.bits = msg
EncTotal == pc # "encfail"
\* ---- C04 clauses that hold on every well-formed graph
WalkInv == IsWalk(live, N, start, e.strand) /\ e.v = EndOf(N, start, e.strand)
StepBound == e.ticks <= Len(msg) * Cardinality(Closure(live, N, {start})) + 1
\* need_path: one record per emitted nucleotide; the information flags mark exactly the steps that carried a digit
PathShape == Len(e.path) = Len(e.strand) /\ \A i \in 1..Len(e.path) : e.path[i][2] = (IF DegreesAlong(live, N, start, e.strand)[i] >= 2 THEN 1 ELSE 0)
\* ---- C05: the operational encoder produces the documented walk
M == BitsVal(msg)
DocHolds == pc \in {"dec", "done"} =>
              IF mode = "normal" THEN IsNormalEncoding(live, N, tbl, start, e.strand, M)
              ELSE IsFastEncoding(live, N, tbl, start, e.strand, msg)
\* the decoder's digit stack re-assembles to the documented value
DecValue == (pc = "done" /\ mode = "normal") => ValueSmall(d.acc) = MixedValue(DigitsAlong(live, N, tbl, start, e.strand))
Witness == ~(pc = "done" /\ Len(msg) = MaxBits /\ mode = "fast" /\ Len(e.strand) > (MaxBits + 1) \div 2 /\ tbl = MixedTable)
\* deterministic stratified sampling of the export (EmitMod = 1 exports everything); the slot comes from VERIF_SEED
Key == FoldLeft(LAMBDA a, u : 5 * a + Cardinality(live[u - 1]), 0, [i \in 1..N |-> i]) + 7 * start + 13 * BitsVal(msg) + 3 * Len(msg)
Slot == IF EmitMod = 1 THEN 0 ELSE atoi(IOEnv.VERIF_SLOT) % EmitMod
Emit == (EmitOn /\ pc = "done" /\ Key % EmitMod = Slot) =>
          PrintT(ToJson([live |-> [i \in 1..N |-> SetToSortSeq(live[i - 1], <)], tbl |-> [i \in 1..N |-> tbl[i - 1]], start |-> start,
                         msg |-> msg, mode |-> mode, vtlen |-> vtlen, strand |-> e.strand, vt |-> Chk, ticks |-> e.ticks, path |-> e.path,
                         bound |-> Len(msg) * Cardinality(Closure(live, N, {start}))]))
=============================================================================
