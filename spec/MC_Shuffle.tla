---------------------------- MODULE MC_Shuffle ----------------------------
(* C18: for every permutation row (24) and every non-empty live-arc pattern (15) the induced digit -> arc map is a    *)
(* bijection with ArcToDigit as inverse; exported as first-step experiments for the real encoder and decoder.        *)
EXTENDS Coding, TLC, Json
Perms == {p \in [1..4 -> 0..3] : \A i, j \in 1..4 : i # j => p[i] # p[j]}
Pats == (SUBSET (0..3)) \ {{}}
VARIABLES row, L, dg, mode
Init == /\ row \in Perms /\ L \in Pats /\ dg \in 0..(Cardinality(L) - 1) /\ mode \in {"normal", "fast"}
        /\ (mode = "fast" => Cardinality(L) \in {2, 4})
        /\ Cardinality(L) >= 2             \* experiments need a digit; out-degree 1 is covered by AllRows below
Next == FALSE /\ UNCHANGED <<row, L, dg, mode>>
Deg == Cardinality(L)
RowBijection == /\ {DigitToArc(row, L, x) : x \in 0..(Deg - 1)} = L
             /\ \A x \in 0..(Deg - 1) : ArcToDigit(row, L, DigitToArc(row, L, x)) = x
             /\ \A a \in L : DigitToArc(row, L, ArcToDigit(row, L, a)) = a
             /\ IsPerm(row)
AllRows == \A r \in Perms, P \in Pats :
             /\ {DigitToArc(r, P, x) : x \in 0..(Cardinality(P) - 1)} = P
             /\ \A x \in 0..(Cardinality(P) - 1) : ArcToDigit(r, P, DigitToArc(r, P, x)) = x
             /\ \A a \in P : DigitToArc(r, P, ArcToDigit(r, P, a)) = a
ASSUME AllRows
Count == Cardinality(Perms) = 24 /\ Cardinality(Pats) = 15
\* identity row = plain A<C<G<T order
IdentityIsOrder == row = Ident => DigitToArc(row, L, dg) = SetToSortSeq(L, <)[dg + 1]
\* experiment: order-1 graph, vertex 0 has pattern L and table row `row`, the other vertices are complete with identity rows;
\* the message starts with digit dg at vertex 0 and continues with one more non-zero digit
Live0 == [u \in 0..3 |-> IF u = 0 THEN L ELSE 0..3]
Tbl0 == [u \in 0..3 |-> IF u = 0 THEN row ELSE Ident]
MsgN == IF Deg = 1 THEN <<1>> ELSE NatBits(<<dg + Deg>>)                         \* value dg + Deg: first digit dg, quotient 1
MsgF == IF Deg = 4 THEN <<dg \div 2, dg % 2, 0, 1>> ELSE <<dg, 1, 1>>
Msg == IF mode = "normal" THEN MsgN ELSE MsgF
RECURSIVE RunEnc(_)
RunEnc(st) == IF st.out # "run" THEN st ELSE RunEnc(EncStep(Live0, 4, Tbl0, Msg, mode, st))
Strand == RunEnc(EncInit(0, Msg)).strand
FirstIsDigitArc == Deg > 1 => Strand[1] = DigitToArc(row, L, dg)
StillWalk == IsWalk(Live0, 4, 0, Strand)
Emit == PrintT(ToJson([row |-> row, live |-> SetToSortSeq(L, <), dg |-> dg, mode |-> mode, msg |-> Msg, arc |-> DigitToArc(row, L, dg),
                       strand |-> Strand]))
=============================================================================
