---------------------------- MODULE Ind_Shift ----------------------------
(* Apalache lemma (unbounded integers): successor / predecessor arithmetic of the de Bruijn graph at every order (C13).         *)
EXTENDS Integers
\* Successor / predecessor arithmetic of the de Bruijn graph for ANY order: m stands for 4^(k-1) (any positive integer), the graph has
\* 4m vertices, v = f*m + r with 0 <= r < m.  The j-th successor of v is (4v + j) mod 4m = 4r + j, and its f-th predecessor is v again;
\* the f-th predecessor of v is v div 4 + f*m and its (v mod 4)-th successor is v again.
VARIABLES
  \* @type: Int;
  m,
  \* @type: Int;
  f,
  \* @type: Int;
  r,
  \* @type: Int;
  j
Init == m \in Nat /\ m >= 1 /\ f \in 0..3 /\ r \in Nat /\ r < m /\ j \in 0..3
Next == UNCHANGED <<m, f, r, j>>
V == f * m + r
SuccV == 4 * r + j                         \* = (4 * V + j) mod (4 * m), because 4 * V + j = f * (4 * m) + (4 * r + j) and 4 * r + j < 4 * m
PredOfSucc == SuccV \div 4 + f * m
IndInv == /\ m >= 1 /\ f \in 0..3 /\ r >= 0 /\ r < m /\ j \in 0..3
          /\ 4 * V + j = f * (4 * m) + SuccV /\ SuccV >= 0 /\ SuccV < 4 * m      \* SuccV is the remainder modulo 4m
          /\ PredOfSucc = V                                                      \* v is the f-th predecessor of its j-th successor
          /\ 4 * (V \div 4 + j * m) + (V % 4) = j * (4 * m) + V                   \* and the (v mod 4)-th successor of its j-th predecessor
IndInit == Init
=============================================================================
