CONSTANTS Graphs <- G1Pair
Source = "edits"
WalkLen = 10
NEdits = 2
MaxLen = 0
Heaps <- H0
EmitOn = TRUE
INIT Init
NEXT Next
INVARIANT Recovers
INVARIANT DetectsIffNotWalk
INVARIANT CleanLeftAlone
INVARIANT SortedUnique
INVARIANT CheckConsistent
PROPERTY ScanAdvances
INVARIANT TickBound
INVARIANT LookupBound
INVARIANT OperatorAgrees
INVARIANT Emit
CHECK_DEADLOCK FALSE
