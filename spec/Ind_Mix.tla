---------------------------- MODULE Ind_Mix ----------------------------
(* Apalache inductive lemma (unbounded integers): the arithmetic core of normal-mode encoding against an adversarial graph    *)
(* (any out-degree 1..4 at every step): m = acc + q * prod with 0 <= acc < prod, hence the emitted digits are the little-endian  *)
(* mixed-radix representation of the message for every message value and every graph (properties C01, C04, C05).                *)
EXTENDS Integers
\* Arithmetic core of normal-mode encoding against an adversarial graph: at every step the graph
\* offers an out-degree d in 1..4; branching steps (d >= 2) consume the digit q % d.
\* m = message value (never changes), q = remaining quotient, acc = value of the digits emitted so far
\* weighted little-endian by the radices met, prod = product of the radices met.
VARIABLES
  \* @type: Int;
  m,
  \* @type: Int;
  q,
  \* @type: Int;
  acc,
  \* @type: Int;
  prod,
  \* @type: Int;
  lastDigitRadix

Init == m \in Nat /\ q = m /\ acc = 0 /\ prod = 1 /\ lastDigitRadix = 0

Step == /\ q > 0
        /\ \E d \in 1..4 :
             IF d >= 2
             THEN /\ q' = q \div d /\ acc' = acc + (q % d) * prod /\ prod' = prod * d /\ lastDigitRadix' = d
             ELSE /\ UNCHANGED <<q, acc, prod>> /\ lastDigitRadix' = 1
        /\ m' = m
Next == Step

\* documented scheme: the digits emitted so far are the little-endian mixed-radix digits of m,
\* i.e. m = acc + q * prod with acc < prod; tightness: prod_before_last_step <= m follows from q >= 1 before it.
IndInv == /\ m >= 0 /\ q >= 0 /\ acc >= 0 /\ prod >= 1 /\ acc < prod
          /\ m = acc + q * prod
          /\ lastDigitRadix \in 0..4
IndInit == m \in Nat /\ q \in Nat /\ acc \in Nat /\ prod \in Nat /\ lastDigitRadix \in 0..4 /\ IndInv
\* at termination (q = 0) the digits are exactly the representation of m:
Done == q = 0 => acc = m
=============================================================================
