CONSTANTS K = 1
MaxBits = 3
Patterns <- P6
Tables <- T6
Modes <- BothModes
VtLens <- Vt012
EmitOn = TRUE
EmitMod = 4
INIT Init
NEXT Next
INVARIANT RoundTrip
INVARIANT WFAgree
INVARIANT EncTotal
INVARIANT WalkInv
INVARIANT PathShape
INVARIANT StepBound
INVARIANT DocHolds
INVARIANT DecValue
INVARIANT Emit
CHECK_DEADLOCK FALSE
