---------------------------- MODULE Generate ----------------------------
(* Graph generation of DNASpiderWeb: vertex discovery, the valid graph, the coding graph (fixed-point trimming and,   *)
(* for threshold 1, removal of everything that cannot reach a branching vertex), and the latter-map twin.            *)
(* Properties C03, C11 (and the generation half of C02, C04).                                                        *)
EXTENDS DeBruijn, Filter

SuccSet(N, v) == {Succ(N, v, j) : j \in 0..3}
\* vertex-induced sub-graph on a vertex set S
LiveOfSet(N, S) == [v \in 0..(N - 1) |-> IF v \in S THEN {j \in 0..3 : Succ(N, v, j) \in S} ELSE {}]
HasArcs(N, S) == {v \in S : SuccSet(N, v) \cap S # {}}

\* ---- vertex discovery and the valid graph (C11)
FindVertices(cfg) == {v \in 0..(4^cfg.k - 1) : Whole(cfg, Kmer(v, cfg.k))}

\* ---- one trimming round and its fixed point
Keep(N, S, t) == {v \in S : Cardinality(SuccSet(N, v) \cap S) >= t}
RECURSIVE Fix(_, _, _)
Fix(N, S, t) == LET S2 == Keep(N, S, t) IN IF S2 = S THEN S ELSE Fix(N, S2, t)
\* ---- threshold 1: every retained vertex must still reach a branching vertex
RECURSIVE BackReachV(_, _, _)
BackReachV(N, T, S) == LET T2 == T \cup {v \in S : SuccSet(N, v) \cap T # {}} IN IF T2 = T THEN T ELSE BackReachV(N, T2, S)
BranchingV(N, S) == {v \in S : Cardinality(SuccSet(N, v) \cap S) >= 2}
RECURSIVE Fix1(_, _)
Fix1(N, S) == LET G1 == Fix(N, S, 1) G2 == BackReachV(N, BranchingV(N, G1), G1) IN IF G2 = S THEN S ELSE Fix1(N, G2)
CodingSet(N, mask, t) == IF t = 1 THEN Fix1(N, mask) ELSE Fix(N, mask, t)

\* ---- the documented object, declaratively: closedness, and the largest closed subset
Closed(N, S, t) == /\ \A v \in S : Cardinality(SuccSet(N, v) \cap S) >= t
                   /\ (t = 1 => BackReachV(N, BranchingV(N, S), S) = S)
IsLargestClosed(N, R, mask, t) == /\ R \subseteq mask /\ Closed(N, R, t)
                                  /\ \A S \in SUBSET mask : Closed(N, S, t) => S \subseteq R

\* ---- the latter-map twin (dsw.graphized.remove_useless on the latter map of the valid graph)
\* a latter map is a function from its keys to successor sets; one round drops keys with fewer than t successors and every
\* successor that is dropped or is not a key; rounds repeat until no successor was dropped
LmapOfSet(N, S) == [v \in HasArcs(N, S) |-> SuccSet(N, v) \cap S]
RuRound(lm, t) == LET saved == {v \in DOMAIN lm : Cardinality(lm[v]) >= t} IN [v \in saved |-> lm[v] \cap saved]
RuFlag(lm, t) == LET saved == {v \in DOMAIN lm : Cardinality(lm[v]) >= t} IN \E v \in saved : lm[v] \cap saved # lm[v]
RECURSIVE RemoveUseless(_, _)
RemoveUseless(lm, t) == IF RuFlag(lm, t) THEN RemoveUseless(RuRound(lm, t), t) ELSE RuRound(lm, t)
\* accessor (as live sets) of a latter map: column = successor mod 4
LiveOfLmap(N, lm) == [v \in 0..(N - 1) |-> IF v \in DOMAIN lm THEN {w % 4 : w \in lm[v]} ELSE {}]
=============================================================================
