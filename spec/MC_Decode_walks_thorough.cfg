CONSTANTS K = 1
MaxLen = 4
Patterns <- PD4
Patterns2 <- PD4
Starts <- SAll
Syms <- Sym4
Rows <- R1
Modes <- BothModes
Widths <- W38
ChkKinds <- CkNone
EmitOn = TRUE
INIT Init
NEXT Next
INVARIANT AcceptIffWalk
INVARIANT CheckAgrees
INVARIANT WalkValue
INVARIANT FastValue
INVARIANT Emit
CHECK_DEADLOCK FALSE
