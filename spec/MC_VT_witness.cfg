CONSTANTS MaxLen = 4
MaxN = 3
NbLen = 0
EmitOn = FALSE
INIT Init
NEXT Next
INVARIANT Witness
CHECK_DEADLOCK FALSE
