---------------------------- MODULE MC_DeBruijn ----------------------------
(* C13 exhaustively for every vertex of every order 1..KMax, and export of the successor / predecessor / k-mer *)
(* tables for replay into obtain_latters, obtain_formers, number_to_dna, dna_to_number, get_complete_accessor.  *)
EXTENDS DeBruijn, TLC, Json
CONSTANTS KMax, EmitOn
VARIABLES k, v
Init == k \in 1..KMax /\ v \in 0..(4^k - 1)
Next == FALSE /\ UNCHANGED <<k, v>>
C13Holds == C13At(k, v)
\* u is a predecessor of v exactly when v is a successor of u (checked against all u for small orders)
PredIffSucc == k <= 4 => \A u \in 0..(4^k - 1) : (u \in ToSet(PredList(v, k))) <=> (v \in ToSet(SuccList(u, k)))
Witness == ~(k = KMax /\ v = 4^k - 1)      \* vacuity guard: must be violated
Emit == EmitOn => PrintT(ToJson([k |-> k, v |-> v, kmer |-> Kmer(v, k), succ |-> SuccList(v, k), pred |-> PredList(v, k)]))
=============================================================================
