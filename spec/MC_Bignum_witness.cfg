CONSTANTS MaxDigits = 3
EmitOn = FALSE
INIT Init
NEXT Next
INVARIANT Witness
CHECK_DEADLOCK FALSE
