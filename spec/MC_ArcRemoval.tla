---------------------------- MODULE MC_ArcRemoval ----------------------------
(* History machine for remove_nasty_arc: the two views are separate variables, updated the way the code updates them;  *)
(* any arc of maximal score may be the one removed (the code's tie-break is one admissible choice).  Every history is  *)
(* explored to exhaustion.  Property C19.                                                                              *)
EXTENDS Score, TLC, Json
CONSTANTS K, InitLives, EmitOn
N == 4^K
V == 0..(N - 1)
Comp(S) == [v \in 0..3 |-> IF v \in S THEN S ELSE {}]
Lives1 == {Comp({0, 1}), Comp({0, 1, 2}), Comp({0, 1, 2, 3})}
Lives1Small == {Comp({0, 1}), Comp({0, 2, 3})}
GCBLive == [v \in 0..15 |-> IF v \in {1, 2, 13, 14} THEN {0, 3} ELSE IF v \in {4, 7, 8, 11} THEN {1, 2} ELSE {}]
Lives2 == {GCBLive}
VARIABLES acc, lmap, ins, del, removed, steps
vars == <<acc, lmap, ins, del, removed, steps>>
Init == /\ \E live \in InitLives : acc = AccFnOfLive(live, N) /\ lmap = LmapOfAcc(AccFnOfLive(live, N), N)
        /\ ins \in BOOLEAN /\ del \in BOOLEAN /\ removed = <<>> /\ steps = 0
RemoveArc == /\ ArcsOf(lmap) # {}
             /\ LET m == ScoreMatrix(lmap, N, K, ins, del) mx == MaxOf(m, N) IN
                \E a \in ArcsOf(lmap) :
                  /\ m[a[1]][a[2] % 4] = mx
                  /\ acc' = AccRemove(acc, a[1], a[2])
                  /\ lmap' = LmapRemove(lmap, a[1], a[2])
                  /\ removed' = a
             /\ steps' = steps + 1 /\ UNCHANGED <<ins, del>>
Next == RemoveArc
Spec == Init /\ [][Next]_vars
ViewsAgree == LmapOfAcc(acc, N) = lmap
WellFormed == \A u \in V, j \in 0..3 : acc[u][j] \in {-1, Succ(N, u, j)}
ArcStep == [][ /\ ArcsOfAcc(acc', N) = ArcsOfAcc(acc, N) \ {removed'}
               /\ removed' \in ArcsOfAcc(acc, N)
               /\ Cardinality(ArcsOfAcc(acc', N)) = Cardinality(ArcsOfAcc(acc, N)) - 1
               /\ ArcsOf(lmap') = ArcsOf(lmap) \ {removed'} ]_vars
ScoresShape == LET m == ScoreMatrix(lmap, N, K, ins, del) IN
               \A c \in V, j \in 0..3 : m[c][j] > 0 => <<c, Succ(N, c, j)>> \in ArcsOf(lmap)
Witness == ~(steps >= 3 /\ Cardinality(DOMAIN lmap) < Cardinality(V) - 1)
\* every reachable state is exported: the real call started from it must remove one of the admissible arcs
Emit == EmitOn => LET m == ScoreMatrix(lmap, N, K, ins, del) mx == MaxOf(m, N) IN
          PrintT(ToJson([k |-> K, live |-> [i \in 1..N |-> SetToSortSeq({j \in 0..3 : acc[i - 1][j] >= 0}, <)], ins |-> ins, del |-> del,
                         scores |-> [i \in 1..N |-> [jj \in 1..4 |-> m[i - 1][jj - 1]]], max |-> mx,
                         allowed |-> SetToSeq({a \in ArcsOf(lmap) : m[a[1]][a[2] % 4] = mx})]))
=============================================================================
