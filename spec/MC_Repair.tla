---------------------------- MODULE MC_Repair ----------------------------
(* repair_dna as a machine: one scan-loop iteration per action, then look-back / product / check filter.              *)
(* Source "edits": every walk of length WalkLen of each graph x every admissible edit set (C08).                      *)
(* Source "strings": every A/C/G/T string of length k..MaxLen (C09, C10), with and without a check, indel on/off,     *)
(* heap limits.                                                                                                       *)
EXTENDS Repair, Generate, TLC, Json
CONSTANTS Graphs, Source, WalkLen, NEdits, MaxLen, Heaps, EmitOn
\* ---- graph families (all produced by graph generation: CodingSet of a mask)
Gen(k, mask, t) == [k |-> k, live |-> LiveOfSet(4^k, CodingSet(4^k, mask, t))]
G1All == {Gen(1, S, 2) : S \in {T \in SUBSET (0..3) : Cardinality(T) >= 2}}
G1Some == {Gen(1, {0, 1}, 2), Gen(1, {0, 2, 3}, 2), Gen(1, 0..3, 2)}
GCB == Gen(2, {1, 2, 4, 7, 8, 11, 13, 14}, 2)                   \* the GC-balanced graph of the documentation
NoHomo == Gen(2, (0..15) \ {0, 5, 10, 15}, 1)
Mixed2 == Gen(2, {0, 1, 2, 4, 6, 8, 9, 11, 13, 14}, 1)          \* out-degrees 1..3 mixed
G2AC == Gen(2, {0, 1, 4, 5}, 2)                                  \* complete on the 2-mers over {A, C}: contains the all-A vertex
G2Deg1 == Gen(2, {1, 2, 4, 7, 9, 12}, 1)                         \* a threshold-1 graph with out-degrees 1 and 2 (forced nucleotides)
G3Run2 == Gen(3, {1, 4, 5, 16, 17, 20}, 1)                       \* order 3 over {A, C}, no run of three: tandem repeats everywhere, the same
                                                                 \* vertex is met again at another look-back depth, errors surface a step late
G3Quick == {G3Run2}
G2Loop == Gen(2, {0, 1, 6, 8}, 1)                                \* AA (self-loop), AC, CG, GA: an error that lands on the self-loop surfaces one step
                                                                 \* late and the look-back window holds the same vertex twice (different depths)
G2Quick == {GCB, G2AC, G2Deg1, G2Loop}
G2All == {GCB, NoHomo, Mixed2}
G1Pair == {Gen(1, {0, 1}, 2)}
G12 == G1Some \cup G2Quick
G1Small == {Gen(1, {0, 1}, 2), Gen(1, {0, 2, 3}, 2)}
G12q == {Gen(1, {0, 2, 3}, 2), GCB}
H0 == {-1}
H013 == {-1, 0, 1, 3}
VARIABLES g, start, dna, w, es, vtk, indel, heap, st, ph, res
vars == <<g, start, dna, w, es, vtk, indel, heap, st, ph, res>>
NN == 4^g.k
KK == g.k
RECURSIVE WalkOf(_, _, _)
WalkOf(gr, u, cs) == IF cs = <<>> THEN <<>> ELSE
   LET L == SetToSortSeq(gr.live[u], <) a == L[(Head(cs) % Len(L)) + 1] IN <<a>> \o WalkOf(gr, Succ(4^gr.k, u, a), Tail(cs))
MaxDeg(gr) == Max({Cardinality(gr.live[u]) : u \in DOMAIN gr.live})
Pos(k, n) == {p \in 0..(n - 1) : p >= k /\ p < n - 2 * k}
EditsAt(p) == {<<"S", p, c>> : c \in 0..3} \cup {<<"I", p, c>> : c \in 0..3} \cup {<<"D", p, 0>>}
EditSets(k, n) == IF NEdits = 1 THEN {<<e>> : e \in UNION {EditsAt(p) : p \in Pos(k, n)}}
                  ELSE {<<e1, e2>> : e1 \in UNION {EditsAt(p) : p \in Pos(k, n)}, e2 \in UNION {EditsAt(p) : p \in Pos(k, n)}}
OnlySubs(s) == \A i \in 1..Len(s) : s[i][1] = "S"
InitEdits == /\ g \in Graphs /\ start \in {u \in 0..(4^g.k - 1) : g.live[u] # {}}
             /\ w \in {WalkOf(g, start, cs) : cs \in [1..WalkLen -> 0..(MaxDeg(g) - 1)]}
             /\ es \in EditSets(g.k, WalkLen) /\ Admissible(w, es, g.k)
             /\ dna = ApplyAll(w, es) /\ vtk \in {"none", "right"} /\ heap = -1
             /\ indel \in (IF OnlySubs(es) THEN BOOLEAN ELSE {TRUE})
InitStrings == /\ g \in Graphs /\ start \in {u \in 0..(4^g.k - 1) : g.live[u] # {}}
               /\ dna \in UNION {[1..n -> 0..3] : n \in g.k..MaxLen}
               /\ w = <<>> /\ es = <<>> /\ vtk \in {"none", "right", "wrong"} /\ heap \in Heaps /\ indel \in BOOLEAN
Init == /\ (IF Source = "edits" THEN InitEdits ELSE InitStrings)
        /\ st = ScanInit(start, Len(dna)) /\ ph = "scan" /\ res = [cands |-> <<>>, det |-> 0, flag |-> FALSE, count |-> 0, visited |-> 0]
Vt == LET base == VT(IF Source = "edits" THEN w ELSE dna, 3) IN
      CASE vtk = "none" -> <<>> [] vtk = "right" -> base [] vtk = "wrong" -> [base EXCEPT ![1] = (@ + 1) % 4]
ScanA == /\ ph = "scan" /\ ~ScanDone(dna, st) /\ st' = ScanStep(g.live, NN, KK, dna, st)
         /\ UNCHANGED <<g, start, dna, w, es, vtk, indel, heap, ph, res>>
FinishA == /\ ph = "scan" /\ ScanDone(dna, st) /\ ph' = "done"
           /\ res' = Finish(g.live, NN, KK, dna, Vt, indel, heap, st)
           /\ UNCHANGED <<g, start, dna, w, es, vtk, indel, heap, st>>
Next == ScanA \/ FinishA
Spec == Init /\ [][Next]_vars
Done == ph = "done"
\* liveness form of C10 (the safety form is ScanAdvances + TickBound): under weak fairness every call finishes
FairSpec == Spec /\ WF_vars(Next)
Termination == <>Done
Walk == IsWalk(g.live, NN, start, dna)
\* ---- C08
Recovers == (Done /\ Source = "edits" /\ res.det = Len(es)) => w \in ToSet(res.cands)
DetectsIffNotWalk == (Done /\ Source = "edits" /\ Len(es) = 1) => ((res.det >= 1) <=> ~Walk)
\* ---- C09
CleanLeftAlone == (Done /\ Walk) => res.det = 0 /\ res.cands = (IF VtOk(dna, Vt) THEN <<dna>> ELSE <<>>)
SortedUnique == Done => StrictlySorted(res.cands)
CheckConsistent == Done => \A i \in 1..Len(res.cands) : VtOk(res.cands[i], Vt)
\* ---- C10
ScanAdvances == [][ph = "scan" /\ ph' = "scan" => st'.loc > st.loc]_vars
TickBound == st.ticks <= Len(dna)
LookupBound == Done => res.visited <= Len(dna) + st.det * 16 * KK * KK
OperatorAgrees == Done => res = RepairOp(g.live, NN, KK, dna, start, Vt, indel, heap)
Witness1 == ~(Done /\ Source = "edits" /\ res.det = Len(es) /\ Len(res.cands) >= 3)
Witness2 == ~(Done /\ Source = "strings" /\ res.det >= 1 /\ Len(res.cands) >= 2)
Emit == (EmitOn /\ Done) =>
   PrintT(ToJson([k |-> KK, live |-> [i \in 1..NN |-> SetToSortSeq(g.live[i - 1], <)], start |-> start, dna |-> dna, vt |-> Vt, indel |-> indel,
                  heap |-> heap, w |-> w, nedits |-> Len(es), es |-> [i \in 1..Len(es) |-> [op |-> es[i][1], pos |-> es[i][2], sym |-> es[i][3]]], walk |-> Walk, cands |-> res.cands, det |-> res.det, flag |-> res.flag,
                  count |-> res.count, visited |-> res.visited, bound |-> Len(dna) + st.det * 16 * KK * KK]))
=============================================================================
