CONSTANTS KPred = 2
Cfgs <- CfgsQuick
EmitMod = 8
INIT Init
NEXT Next
INVARIANT ValidDef
INVARIANT FindDef
INVARIANT Emit
CHECK_DEADLOCK FALSE
