---------------------------- MODULE Ind_Div ----------------------------
(* Apalache inductive lemma (unbounded integers): long division of a decimal string by one digit, most significant first -   *)
(* the step of Bignum!DivStep: pin = qout * b + rem with 0 <= rem < b is inductive for an arbitrary next digit.                 *)
EXTENDS Integers
\* Long division of a decimal string by a single digit b (2..9), most significant digit first.
VARIABLES
  \* @type: Int;
  b,
  \* @type: Int;
  pin,
  \* @type: Int;
  qout,
  \* @type: Int;
  rem
Init == b \in 2..9 /\ pin = 0 /\ qout = 0 /\ rem = 0
Step == \E d \in 0..9 :
          LET cur == rem * 10 + d IN
          /\ pin' = pin * 10 + d
          /\ qout' = qout * 10 + (cur \div b)
          /\ rem' = cur % b
          /\ b' = b
Next == Step
IndInv == b \in 2..9 /\ pin >= 0 /\ qout >= 0 /\ rem >= 0 /\ rem < b /\ pin = qout * b + rem
IndInit == b \in 2..9 /\ pin \in Nat /\ qout \in Nat /\ rem \in Nat /\ IndInv
=============================================================================
