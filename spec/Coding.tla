---------------------------- MODULE Coding ----------------------------
(* Graph-walk encoder and decoder of DNASpiderWeb (dsw.spiderweb.encode / decode) as step machines, both modes, with *)
(* digit shuffles and the path check, plus the declarative statement of the published scheme (DocScheme).            *)
(* Properties C01, C04, C05, C06, C18.   One step operator per loop iteration of the code.                          *)
(*   live : [0..N-1 -> SUBSET 0..3]   arcs                                                                           *)
(*   tbl  : [0..N-1 -> Seq(0..3)]     shuffle table rows (1-based 4-sequences), NoTable = identity                    *)
EXTENDS DeBruijn, BigNat, VT

Ident == <<0, 1, 2, 3>>
IsPerm(row) == Len(row) = 4 /\ {row[i] : i \in 1..4} = 0..3
\* digit d selects the live arc whose table entry is d-th smallest; inverse: rank of the arc's entry among live arcs
DigitToArc(row, L, d) == SetToSortSeq(L, LAMBDA a, b : row[a + 1] < row[b + 1])[d + 1]
ArcToDigit(row, L, a) == Cardinality({b \in L : row[b + 1] < row[a + 1]})
OnlyArc(L) == CHOOSE x \in L : TRUE

\* ------------------------------------------------------------------ encoder
\* st = [v, q (limbs), loc, strand, ticks, out]   out \in {"run", "ok", "noarc", "deg3"}
\* path: the need_path record (normal mode: the vertex the step leaves; fast mode: the vertex the step enters; 1 = the step carried information)
EncInit(start, msg) == [v |-> start, q |-> FromBits(msg), loc |-> 0, strand |-> <<>>, ticks |-> 0, out |-> "run", path |-> <<>>]
EncDoneNormal(st) == IsZero(st.q)
EncStepNormal(live, N, tbl, st) ==
  LET L == live[st.v]  d == Cardinality(L) IN
  IF d = 0 THEN [st EXCEPT !.out = "noarc", !.ticks = @ + 1]
  ELSE LET qr == IF d > 1 THEN DivMod(st.q, d) ELSE <<st.q, 0>>
           a == IF d > 1 THEN DigitToArc(tbl[st.v], L, qr[2]) ELSE OnlyArc(L)
       IN [st EXCEPT !.strand = Append(@, a), !.v = Succ(N, st.v, a), !.q = qr[1], !.ticks = @ + 1,
                     !.path = Append(@, <<st.v, IF d > 1 THEN 1 ELSE 0>>)]
BitAt(msg, i) == IF i <= Len(msg) THEN msg[i] ELSE 0          \* a missing last bit reads as 0
EncDoneFast(msg, st) == st.loc >= Len(msg)
EncStepFast(live, N, tbl, msg, st) ==
  LET L == live[st.v]  d == Cardinality(L) IN
  IF d = 0 THEN [st EXCEPT !.out = "noarc", !.ticks = @ + 1]
  ELSE IF d = 3 THEN [st EXCEPT !.out = "deg3", !.ticks = @ + 1]
  ELSE LET r == IF d = 4 THEN 2 * BitAt(msg, st.loc + 1) + BitAt(msg, st.loc + 2) ELSE IF d = 2 THEN BitAt(msg, st.loc + 1) ELSE 0
           a == IF d > 1 THEN DigitToArc(tbl[st.v], L, r) ELSE OnlyArc(L)
       IN [st EXCEPT !.strand = Append(@, a), !.v = Succ(N, st.v, a), !.ticks = @ + 1,
                     !.loc = @ + (IF d = 4 THEN 2 ELSE IF d = 2 THEN 1 ELSE 0),
                     !.path = Append(@, <<Succ(N, st.v, a), IF d > 1 THEN 1 ELSE 0>>)]
EncStep(live, N, tbl, msg, mode, st) ==
  IF mode = "normal" THEN (IF EncDoneNormal(st) THEN [st EXCEPT !.out = "ok"] ELSE EncStepNormal(live, N, tbl, st))
  ELSE (IF EncDoneFast(msg, st) THEN [st EXCEPT !.out = "ok"] ELSE EncStepFast(live, N, tbl, msg, st))

\* ------------------------------------------------------------------ decoder
\* st = [v, loc, digits (seq of <<radix, digit>>), bits, acc (limbs), carried (fast mode: bits carried by the steps), ph, out]
\* ph: "check" -> "scan" -> ("horner" ->) "done";   out \in {"run", "ok", "valueerror", "indexerror"}
DecInit(start) == [v |-> start, loc |-> 0, digits |-> <<>>, bits |-> <<>>, acc |-> <<0>>, carried |-> 0, ph |-> "check", out |-> "run"]
\* chk = <<>> means no check supplied; a check with a foreign symbol can never match
CheckOK(dna, chk) == chk = <<>> \/ ((\A i \in 1..Len(dna) : dna[i] \in 0..3) /\ VT(dna, Len(chk)) = chk)
DecStep(live, N, tbl, dna, chk, mode, w, st) ==
  CASE st.ph = "check" ->
         \* set_vt on a strand with a foreign character raises ValueError as well (index of a missing character)
         IF CheckOK(dna, chk) THEN [st EXCEPT !.ph = "scan"] ELSE [st EXCEPT !.ph = "done", !.out = "valueerror"]
    [] st.ph = "scan" /\ st.loc < Len(dna) ->
         LET L == live[st.v]  d == Cardinality(L)  a == dna[st.loc + 1] IN
         IF a \notin L THEN [st EXCEPT !.ph = "done", !.out = "valueerror"]      \* also d = 0: no out-degree
         ELSE IF mode = "fast" /\ d = 3 THEN [st EXCEPT !.ph = "done", !.out = "valueerror"]   \* "Not implementation!"
         ELSE LET r == ArcToDigit(tbl[st.v], L, a) IN
              IF mode = "normal"
              THEN [st EXCEPT !.digits = IF d > 1 THEN Append(@, <<d, r>>) ELSE @, !.v = Succ(N, st.v, a), !.loc = @ + 1]
              ELSE IF (d = 4 /\ Len(st.bits) + 1 > w) \/ (d = 2 /\ Len(st.bits) + 1 > w)
                   THEN [st EXCEPT !.ph = "done", !.out = "indexerror"]          \* more bits carried than requested: out of scope
                   ELSE [st EXCEPT !.bits = IF d = 4 THEN (IF Len(@) + 2 <= w THEN @ \o <<r \div 2, r % 2>> ELSE Append(@, r \div 2))
                                              ELSE IF d = 2 THEN Append(@, r) ELSE @,
                                   !.carried = @ + (IF d = 4 THEN 2 ELSE IF d = 2 THEN 1 ELSE 0),
                                   !.v = Succ(N, st.v, a), !.loc = @ + 1]
    [] st.ph = "scan" /\ st.loc >= Len(dna) ->
         IF mode = "normal" THEN [st EXCEPT !.ph = "horner"]
         ELSE [st EXCEPT !.ph = "done", !.out = "ok", !.bits = SubSeq(@ \o [i \in 1..w |-> 0], 1, w)]
    [] st.ph = "horner" ->
         IF st.digits = <<>> THEN [st EXCEPT !.ph = "done", !.out = "ok", !.bits = ToBitsW(st.acc, w)]
         ELSE LET x == st.digits[Len(st.digits)] IN
              [st EXCEPT !.acc = MulAdd(@, x[1], x[2]), !.digits = SubSeq(@, 1, Len(@) - 1)]
    [] OTHER -> st

\* ------------------------------------------------------------------ the published scheme, declaratively (small values)
\* radices and digits met along a walk w from start
RECURSIVE DigitsAlong(_, _, _, _, _)
DigitsAlong(live, N, tbl, u, w) ==
  IF w = <<>> THEN <<>>
  ELSE LET L == live[u] d == Cardinality(L) rest == DigitsAlong(live, N, tbl, Succ(N, u, Head(w)), Tail(w)) IN
       IF d > 1 THEN << <<d, ArcToDigit(tbl[u], L, Head(w))>> >> \o rest ELSE rest
\* little-endian mixed-radix value: sum of d_i * prod_{j<i} r_j
RECURSIVE MixedValue(_)
MixedValue(ds) == IF ds = <<>> THEN 0 ELSE ds[1][2] + ds[1][1] * MixedValue(Tail(ds))
RadixProduct(ds) == FoldLeft(LAMBDA acc, x : acc * x[1], 1, ds)
RECURSIVE DegreesAlong(_, _, _, _)
DegreesAlong(live, N, u, w) == IF w = <<>> THEN <<>> ELSE <<Cardinality(live[u])>> \o DegreesAlong(live, N, Succ(N, u, Head(w)), Tail(w))
\* normal mode: w is THE encoding of value m iff it is a walk, its digits are the mixed-radix digits of m, and (unless empty) its
\* last step is a branching one whose digit is non-zero or... (canonical form: the quotient before the last step is >= 1)
IsNormalEncoding(live, N, tbl, start, w, m) ==
  /\ IsWalk(live, N, start, w)
  /\ MixedValue(DigitsAlong(live, N, tbl, start, w)) = m
  /\ (w = <<>> <=> m = 0)
  /\ (w # <<>> => /\ DegreesAlong(live, N, start, w)[Len(w)] >= 2
                  /\ RadixProduct(DigitsAlong(live, N, tbl, start, SubSeq(w, 1, Len(w) - 1))) <= m)
\* fast mode: 2 bits (MSB first) per 4-way vertex, 1 bit per 2-way vertex; concatenation = msg (+ one 0 when a pair is incomplete)
RECURSIVE FastBitsAlong(_, _, _, _, _)
FastBitsAlong(live, N, tbl, u, w) ==
  IF w = <<>> THEN <<>>
  ELSE LET L == live[u] d == Cardinality(L) r == ArcToDigit(tbl[u], L, Head(w))
           rest == FastBitsAlong(live, N, tbl, Succ(N, u, Head(w)), Tail(w)) IN
       (IF d = 4 THEN <<r \div 2, r % 2>> ELSE IF d = 2 THEN <<r>> ELSE <<>>) \o rest
IsFastEncoding(live, N, tbl, start, w, msg) ==
  /\ IsWalk(live, N, start, w)
  /\ LET b == FastBitsAlong(live, N, tbl, start, w) IN b = msg \/ b = Append(msg, 0)
  /\ (w = <<>> <=> msg = <<>>)
  /\ (w # <<>> => DegreesAlong(live, N, start, w)[Len(w)] >= 2)
=============================================================================
