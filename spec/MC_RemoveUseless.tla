---------------------------- MODULE MC_RemoveUseless ----------------------------
(* dsw.graphized.remove_useless as a public function on arbitrary latter maps (not only de Bruijn ones, cf. the documented  *)
(* example {0:[1,2], 1:[], 2:[3,4], 3:[0]}): rounds drop keys with fewer than t successors and every successor that is       *)
(* dropped or is not a key; the result is the largest sub-map in which every key keeps at least t successors that are keys.  *)
(* Growth of the specification beyond the listed properties (conformance tier of C03).                                       *)
EXTENDS Generate, TLC, Json
VARIABLES lm, t, cur, rounds, pc
vars == <<lm, t, cur, rounds, pc>>
Keys == 0..2
Targets == 0..3                     \* 3 is never a key: a dangling successor
Init == /\ \E K \in SUBSET Keys : lm \in [K -> SUBSET Targets]
        /\ t \in 1..3 /\ cur = lm /\ rounds = 0 /\ pc = "round"
Round == /\ pc = "round"
         /\ cur' = RuRound(cur, t) /\ rounds' = rounds + 1
         /\ pc' = (IF RuFlag(cur, t) THEN "round" ELSE "done")
         /\ UNCHANGED <<lm, t>>
Next == Round
Spec == Init /\ [][Next]_vars
\* declarative: the largest key set K such that every key in K has at least t successors in K
ClosedKeys(K) == \A v \in K : Cardinality(lm[v] \cap K) >= t
Largest == UNION {K \in SUBSET (DOMAIN lm) : ClosedKeys(K)}
IsGfp == pc = "done" => /\ DOMAIN cur = Largest /\ \A v \in DOMAIN cur : cur[v] = lm[v] \cap Largest
MachineIsOperator == pc = "done" => cur = RemoveUseless(lm, t)
RoundBound == rounds <= Cardinality(DOMAIN lm) + 1
Emit == pc = "done" => PrintT(ToJson([lm |-> [i \in 1..3 |-> IF (i - 1) \in DOMAIN lm THEN <<1, SetToSortSeq(lm[i - 1], <)>> ELSE <<0, <<>> >>], t |-> t,
                                       res |-> [i \in 1..3 |-> IF (i - 1) \in DOMAIN cur THEN <<1, SetToSortSeq(cur[i - 1], <)>> ELSE <<0, <<>> >>]]))
=============================================================================
