SPECIFICATION Spec
CONSTANTS
  Totals = {1, 3, 7, 20}
  Steps = {0, 61, 3700}
  KeepHist = FALSE
  MaxElapsed = 3800
  MaxLen = 0
CONSTRAINT Bound
INVARIANT TypeOK
INVARIANT Shape
PROPERTY WaitIsEstimate
PROPERTY Disarm
PROPERTY UsedIsThisRun
CHECK_DEADLOCK FALSE
