CONSTANTS KPred = 2
Cfgs <- CfgsQuick
EmitMod = 1
INIT Init
NEXT Next
INVARIANT Witness
CHECK_DEADLOCK FALSE
