---------------------------- MODULE Trace_Bignum ----------------------------
(* Code -> spec for C15 and C16: recorded calls of the big-number helpers and of the bit/DNA conversions are re-run  *)
(* on the digit-serial machines of Bignum.tla and compared.  One verdict line per case.                               *)
EXTENDS Bignum, TLC, Json, IOUtils
Data == JsonDeserialize(IOEnv.TRACE_FILE)
Cases == Data.cases
VARIABLES cid, verdict
vars == <<cid, verdict>>
Init == cid \in 1..Len(Cases) /\ verdict = "pending"
RECURSIVE Labels(_, _, _)
Labels(o, s, acc) ==
  CASE o = "add" -> IF AddDone(s) THEN acc ELSE Labels(o, AddStep(s), acc \cup {AddLabel(s)})
    [] o = "mul" -> IF MulDone(s) THEN acc ELSE Labels(o, MulStep(s), acc \cup {MulLabel(s)})
    [] o = "div" -> IF DivDone(s) THEN acc ELSE Labels(o, DivStep(s), acc \cup {DivLabel(s)})
    [] o = "sub" -> IF SubDone(s) THEN acc ELSE Labels(o, SubStep(s), acc \cup {SubLabel(s)})
JudgeOp(c) ==
  CASE c.op = "add" -> IF c.res = Add(c.num, c.b) THEN "ok" ELSE "violation:addition"
    [] c.op = "mul" -> IF c.res = Mul(c.num, c.b) THEN "ok" ELSE "violation:multiplication"
    [] c.op = "div" -> IF <<c.res, c.rem>> = Div(c.num, c.b) THEN "ok" ELSE "violation:division"
    [] c.op = "sub" -> IF c.res = Sub(c.num, c.b) THEN "ok" ELSE "violation:subtraction"
\* conversions: c.seq over 0..base-1, c.str = string-path number (decimal digits), c.back_* = renderings at width c.w.
\* Sequences beyond 1500 symbols are not re-computed digit by digit (cubic cost in TLC); for them the clauses that need no reference
\* value are judged: the two code paths agree on a canonical decimal string, and rendering that number at the original length gives
\* the sequence back, left-padded to the requested width.
JudgeConv(c) ==
  LET long == Len(c.seq) > 1500
      n == IF long THEN c.str ELSE StrOfSeq(c.seq, c.base)
      want == IF long THEN [i \in 1..(c.w - Len(c.seq)) |-> 0] \o c.seq
              ELSE PadW(DigitsOfStr(n, c.base), c.w, c.base = 2)
  IN IF c.str # n \/ ~IsCanon(c.str) THEN "violation:to-number-string-path"
     ELSE IF c.int # n THEN "violation:to-number-int-path"
     ELSE IF c.back_str # want THEN "violation:from-number-string-path"
     ELSE IF c.back_int # want THEN "violation:from-number-int-path"
     ELSE IF c.w >= Len(c.seq) /\ c.back_str # [i \in 1..(c.w - Len(c.seq)) |-> 0] \o c.seq THEN "violation:round-trip"
     ELSE "ok"
Judge(c) == IF c.kind = "op" THEN JudgeOp(c) ELSE JudgeConv(c)
LabelsOf(c) == IF c.kind # "op" THEN {}
               ELSE CASE c.op = "add" -> Labels("add", AddInit(c.num, c.b), {})
                      [] c.op = "mul" -> IF c.b \in {0, 1} THEN {} ELSE Labels("mul", MulInit(c.num, c.b), {})
                      [] c.op = "div" -> IF c.b \in {0, 1} \/ (Len(c.num) = 1 /\ c.num[1] < c.b) THEN {} ELSE Labels("div", DivInit(c.num, c.b), {})
                      [] c.op = "sub" -> Labels("sub", SubInit(c.num, c.b), {})
Check == /\ verdict = "pending" /\ verdict' = Judge(Cases[cid])
         /\ PrintT(ToJson([cid |-> cid, verdict |-> verdict', labels |-> SetToSeq(LabelsOf(Cases[cid]))])) /\ UNCHANGED cid
Next == Check
Spec == Init /\ [][Next]_vars
=============================================================================
