CONSTANTS Source = "uniform"
Patterns <- HalfPatterns
EmitOn = TRUE
INIT Init
NEXT Next
INVARIANT Le4
INVARIANT RegExact
INVARIANT UniformIsRegular
INVARIANT Emit
CHECK_DEADLOCK FALSE
