---------------------------- MODULE Trace_VT ----------------------------
(* Code -> spec for C07: recorded set_vt results (any strand length, check lengths up to 64) and recorded decode     *)
(* outcomes on single-edit neighbours are judged against VTDoc.                                                      *)
EXTENDS VT, TLC, Json, IOUtils
Data == JsonDeserialize(IOEnv.TRACE_FILE)
Cases == Data.cases
VARIABLES cid, verdict
vars == <<cid, verdict>>
Init == cid \in 1..Len(Cases) /\ verdict = "pending"
\* kind "vt": c.s, c.n, c.vt (digits, <<-1>> if the call raised)
\* kind "edit": c.s, c.n, c.x (edited strand), c.vtx (check of x), c.rejected (decode(x, vt_check = VT(s)) raised ValueError)
Judge(c) ==
  IF c.kind = "vt" THEN (IF c.vt = VTDoc(c.s, c.n) THEN "ok" ELSE IF Len(c.vt) # c.n THEN "violation:check-length" ELSE "violation:vt-function")
  ELSE IF c.x \notin Neighbours(c.s) THEN "precondition-false"
  ELSE IF c.vtx = VTDoc(c.s, c.n) THEN "violation:edit-keeps-check"
  ELSE IF ~c.rejected THEN "violation:decode-accepts-edit"
  ELSE "ok"
Check == /\ verdict = "pending" /\ verdict' = Judge(Cases[cid])
         /\ PrintT(ToJson([cid |-> cid, verdict |-> verdict'])) /\ UNCHANGED cid
Next == Check
Spec == Init /\ [][Next]_vars
=============================================================================
