"""Demonstrations of the defects D1..D10 (DESIGN.md section 6) against the dsw tree on PYTHONPATH.
Usage: python demo.py [D1 D2 ...]   prints one line per defect: 'Dn DEFECT <what>' or 'Dn ok'."""
import sys, signal
import numpy as np
import dsw

def alarm(sec):
    def h(*a): raise TimeoutError("no return within %ds" % sec)
    signal.signal(signal.SIGALRM, h); signal.alarm(sec)

def gc2():
    return np.array([[-1,-1,-1,-1],[4,-1,-1,7],[8,-1,-1,11],[-1,-1,-1,-1],[-1,1,2,-1],[-1,-1,-1,-1],[-1,-1,-1,-1],[-1,13,14,-1],
                     [-1,1,2,-1],[-1,-1,-1,-1],[-1,-1,-1,-1],[-1,13,14,-1],[-1,-1,-1,-1],[4,-1,-1,7],[8,-1,-1,11],[-1,-1,-1,-1]])

def D1():
    assert dsw.set_vt("", 4) == "AAAA"
    acc = dsw.get_complete_accessor(1)
    s, c = dsw.encode(np.array([0,0,0]), acc, 1, vt_length=3)
    assert (s, c) == ("", "AAA")
    assert list(dsw.decode(s, 3, acc, 1, vt_check=c)) == [0,0,0]
def D2():
    assert len(dsw.set_vt("ACGTTGCAAC", 33)) == 33
    assert len(dsw.set_vt("ACGTTGCAAC", 64)) == 64
def D3():
    acc = dsw.get_complete_accessor(2)
    m = np.array([1,0,1])
    s = dsw.encode(m, acc, 0, is_faster=True)
    assert list(dsw.decode(s, 3, acc, 0, is_faster=True)) == [1,0,1]
def D4():
    alarm(5)
    r = dsw.repair_dna("CCTCTCTC", gc2(), 1, 2)
    signal.alarm(0)
    assert isinstance(r, tuple) and isinstance(r[0], list)
def D5():
    acc = dsw.get_complete_accessor(1)
    acc[0,0] = -1; acc[1,1] = -1; acc[2,2] = -1; acc[3,3] = -1   # no homopolymers, order 1
    w = "ACACGAGACG"
    bad = "ATACGAGACG"   # would be a walk; use a non-walk edit instead
    bad = "ACAAGAGACG"   # substitution at position 3 creates AA
    r, st = dsw.repair_dna(bad, acc, 1, 1, has_indel=True, heap_size=1e6)
    assert st[0] == 1, st
    assert w in r, (r, st)
def D6():
    class Mine(dsw.DefaultBioFilter):
        def __init__(self): super().__init__("mine")
        def valid(self, dna_string): return dna_string != "AA"
    v = dsw.find_vertices(2, Mine())
    assert v.astype(int).tolist() == [0] + [1]*15
def D7():
    m = np.zeros(16, dtype=bool); m[[1,4]] = True           # AC <-> CA: an information-free cycle only
    try:
        dsw.connect_coding_graph(2, m, 1); raise AssertionError("graph returned for an information-free cycle")
    except ValueError: pass
    m = np.zeros(16, dtype=bool); m[[0,1,2,3,5,6]] = True    # AA AC AG AT CC CG
    try:
        v, a = dsw.connect_coding_graph(2, m, 1)
    except ValueError: v, a = None, None
    # largest closed sub-graph with reachability of a branching vertex: AA->AA only is info-free; whole thing: AA has succ AA,AC,AG,AT; AC->CC,CG; CC->CC,CG? CG->none...
def D10():
    assert dsw.bit_to_number(np.ones(70, dtype=int), is_string=False) == 2**70 - 1

for name in (sys.argv[1:] or ["D1","D2","D3","D4","D5","D6","D7","D10"]):
    try:
        alarm(10); globals()[name](); signal.alarm(0); print(name, "ok")
    except BaseException as e:
        signal.alarm(0)
        print(name, "DEFECT", type(e).__name__, str(e)[:150])
