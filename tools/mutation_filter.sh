#!/bin/sh
# tools/mutation_filter.sh <mutants.jsonl> <out.jsonl> [workers]  - which single-token mutants survive the repository's own tests
# (scratch worktrees under /var/tmp/mw, removed afterwards)
IN="$1"; OUT="$2"; W="${3:-10}"
mkdir -p /var/tmp/mw; : > "$OUT"
for i in $(seq 1 $W); do git -C /repo worktree add -q --detach /var/tmp/mw/w$i HEAD; done
split -n l/$W -d "$IN" /var/tmp/mw/part.
i=0
for part in /var/tmp/mw/part.*; do
  i=$((i+1)); wt=/var/tmp/mw/w$i
  ( while IFS= read -r line; do
      python3 /verif/tools/mutate.py apply $wt "$line"
      res=$(cd $wt && timeout 240 /venv/bin/python -m pytest -q -x -p no:cacheprovider --timeout=100 tests 2>&1 | tail -1 | cut -c1-60)
      git -C $wt checkout -q -- .
      printf '{"m": %s, "tests": "%s"}\n' "$line" "$res" >> "$OUT.$i"
    done < "$part" ) &
done
wait
cat "$OUT".* > "$OUT"; rm -f "$OUT".*
for i in $(seq 1 $W); do git -C /repo worktree remove --force /var/tmp/mw/w$i; done; rm -rf /var/tmp/mw; git -C /repo worktree prune
