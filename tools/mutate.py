"""Classic single-token mutants of dsw/*.py (a complement to the hand-written seeded changes).

  python3 tools/mutate.py list  <repo> > mutants.jsonl          enumerate candidates (file, line, col, old, new, function)
  python3 tools/mutate.py apply <repo-worktree> '<json line>'     rewrite the file in the given worktree

Token based (tokenize), so a mutant is a one-token diff: comparison operators, + / -, and / or, small integer constants +-1,
`not` dropped, break <-> continue. Lines that only serve logging (print, monitor, verbose, _verif) and docstrings are skipped."""
import io
import json
import os
import sys
import tokenize

FILES = ["dsw/spiderweb.py", "dsw/graphized.py", "dsw/operation.py", "dsw/biofilter.py"]
SWAP = {"<": ["<="], "<=": ["<"], ">": [">="], ">=": [">"], "==": ["!="], "!=": ["=="], "+": ["-"], "-": ["+"], "and": ["or"], "or": ["and"],
        "//": ["/"], "%": ["//"], "*": ["+"], "break": ["continue"], "continue": ["break"], "+=": ["-="], "-=": ["+="], "is": ["is not"],
        "True": ["False"], "False": ["True"]}
SKIP_WORDS = ("print(", "monitor", "verbose", "_verif", "import ", "raise ", ":param", ":type", ":return", ":rtype", ">>>", "def ", "class ")


def functions_of(src):
    import ast
    tree = ast.parse(src)
    spans = []
    for node in ast.walk(tree):
        if isinstance(node, (ast.FunctionDef,)):
            spans.append((node.lineno, node.end_lineno, node.name))
    return spans


def enumerate_file(repo, rel):
    path = os.path.join(repo, rel)
    src = open(path).read()
    lines = src.splitlines()
    spans = functions_of(src)
    out = []
    for tok in tokenize.generate_tokens(io.StringIO(src).readline):
        if tok.type not in (tokenize.OP, tokenize.NAME, tokenize.NUMBER):
            continue
        line = lines[tok.start[0] - 1]
        if any(w in line for w in SKIP_WORDS):
            continue
        fn = [n for a, b, n in spans if a <= tok.start[0] <= b]
        if not fn or fn[-1] in ("__call__", "__str__") or "Monitor" in fn:
            continue
        news = []
        if tok.string in SWAP and tok.type in (tokenize.OP, tokenize.NAME):
            news = SWAP[tok.string]
        elif tok.type == tokenize.NUMBER and tok.string.isdigit() and int(tok.string) <= 10:
            v = int(tok.string)
            news = [str(v + 1)] + ([str(v - 1)] if v > 0 else [])
        elif tok.type == tokenize.NAME and tok.string == "not":
            news = [""]
        for new in news:
            out.append({"file": rel, "line": tok.start[0], "col": tok.start[1], "old": tok.string, "new": new, "function": fn[-1],
                        "text": line.strip()[:120]})
    return out


def apply(repo, m):
    path = os.path.join(repo, m["file"])
    lines = open(path).read().split("\n")
    ln = lines[m["line"] - 1]
    assert ln[m["col"]:m["col"] + len(m["old"])] == m["old"], (ln, m)
    lines[m["line"] - 1] = ln[:m["col"]] + m["new"] + ln[m["col"] + len(m["old"]):]
    open(path, "w").write("\n".join(lines))


if __name__ == "__main__":
    if sys.argv[1] == "list":
        for rel in FILES:
            for m in enumerate_file(sys.argv[2], rel):
                print(json.dumps(m))
    elif sys.argv[1] == "apply":
        apply(sys.argv[2], json.loads(sys.argv[3]))
