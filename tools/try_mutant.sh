#!/bin/sh
# tools/try_mutant.sh <patch.diff> <ID> [<ID>...]  - run quick checks against a scratch worktree of /repo with the patch applied.
# Prints "<ID> rc=<n>" per check. The worktree lives under /var/tmp and is removed afterwards.
P="$1"; shift
D=$(mktemp -d /var/tmp/mut.XXXXXX)
git -C /repo worktree add -q --detach "$D/repo" HEAD || exit 2
if ! git -C "$D/repo" apply "$P"; then echo "patch does not apply"; git -C /repo worktree remove --force "$D/repo"; rm -rf "$D"; exit 2; fi
for id in "$@"; do
  VERIF_OUT="$D/out" DSW_REPO="$D/repo" /verif/check "$id" --tier "${TIER:-quick}" > "$D/$id.out" 2>&1
  rc=$?
  echo "$id rc=$rc $(grep -c '^VIOLATION' "$D/$id.out") violation lines; $(grep -m1 'clause=' "$D/$id.out" | cut -c1-220)"
  [ $rc -eq 2 ] && tail -5 "$D/$id.out"
done
git -C /repo worktree remove --force "$D/repo"; rm -rf "$D"
