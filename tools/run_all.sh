#!/bin/sh
# tools/run_all.sh [quick|thorough] ["C01 C02 ..."]  - runs every check of MANIFEST.json in sequence; prints one line per check
T="${1:-quick}"
cd "$(dirname "$0")/.."
L="${TMPDIR:-/tmp}/runall_$T"; mkdir -p "$L"
IDS="${2:-C01 C02 C03 C04 C05 C06 C07 C08 C09 C10 C11 C12 C13 C14 C15 C16 C17 C18 C19 C20}"
for id in $IDS; do
  s=$(date +%s)
  ./check $id --tier $T > $L/$id.log 2>&1
  rc=$?
  e=$(date +%s)
  echo "$id rc=$rc $((e-s))s $(grep -E "^$id $T:" $L/$id.log | cut -c1-160) $(grep -c '^KNOWN-FINDING' $L/$id.log) known-lines"
done
