#!/bin/sh
# tools/sweep_seeded.sh [parallelism]  - regression of detection: every seeded change against the checks recorded as catching it.
# Prints one line per change: "<name> <check> rc=<n>" (rc=1 = caught). Scratch worktrees under /var/tmp, never /repo.
P="${1:-2}"
cd "$(dirname "$0")/.."
for d in seeded/*/; do
  n=$(basename "$d")
  ids=$(python3 -c "import json,sys; m=json.load(open('$d/meta.json')); print(' '.join(m.get('caught_by') or [m['property']]))")
  echo "$n $ids"
done | xargs -P "$P" -L 1 sh -c 'n="$0"; shift 0; ids="$@"; out=$(tools/try_mutant.sh $PWD/seeded/$n/patch.diff $ids 2>&1 | cut -c1-60 | tr "\n" " "); echo "$n: $out"'
