#!/bin/sh
# tools/confirm_mutant.sh <dir with patch.diff demo.py meta.json>  -> prints one JSON line with what was confirmed
# (scratch worktree under /var/tmp, removed afterwards)
M="$1"
D=$(mktemp -d /var/tmp/conf.XXXXXX)
git -C /repo worktree add -q --detach "$D/repo" HEAD || exit 2
base=$(cd "$D/repo" && PYTHONPATH="$D/repo" timeout 120 /venv/bin/python "$M/demo.py" >/dev/null 2>&1; echo $?)
if git -C "$D/repo" apply "$M/patch.diff" 2>/dev/null; then applies=true; else applies=false; fi
if [ $applies = true ]; then
  tests=$(cd "$D/repo" && timeout 1500 /venv/bin/python -m pytest -q -p no:cacheprovider --timeout=900 tests 2>&1 | tail -1)
  mut=$(cd "$D/repo" && PYTHONPATH="$D/repo" timeout 120 /venv/bin/python "$M/demo.py" >/dev/null 2>&1; echo $?)
else tests="n/a"; mut="n/a"; fi
echo "{\"mutant\": \"$M\", \"applies\": $applies, \"tests\": \"$tests\", \"demo_rc_unpatched\": \"$base\", \"demo_rc_patched\": \"$mut\"}"
git -C /repo worktree remove --force "$D/repo"; rm -rf "$D"
