"""Regenerates the machine-written tables of DESIGN.md (between <!-- BEGIN x --> / <!-- END x --> markers) from
evidence/*.json, seeded/*/meta.json and spec/.   python3 tools/design_tables.py"""
import glob
import json
import os
import re

ROOT = os.path.dirname(os.path.dirname(os.path.abspath(__file__)))


def evidence_table():
    rows = ["| id | tier | TLC states | impl cases judged | distinct non-trivial | vacuous | known | wall s | TLC runs (module/cfg: distinct states, s) |",
            "|----|------|-----------:|------------------:|---------------------:|--------:|------:|-------:|---|"]
    for f in sorted(glob.glob(os.path.join(ROOT, "evidence", "C*.json"))):
        e = json.load(open(f))
        c = e["coverage"]
        runs = "; ".join("%s: %d, %ss" % (r["cfg"].replace(".cfg", ""), r["distinct"], r["wall_s"]) for r in c.get("tlc_runs", []))
        rows.append("| %s | %s | %d | %d | %d | %d | %d | %.0f | %s |" % (
            e["property_id"], e["tier"], c["states"], c["traces_validated_against_impl"], c["distinct_nontrivial"], c.get("vacuous", 0),
            sum(c.get("known_finding_cases", {}).values()), e["wall_s"], runs))
    return "\n".join(rows)


def seeded_table():
    rows = ["| seeded change | breaks | what was changed | needs | caught by (quick tier) | first failing clause |",
            "|---|---|---|---|---|---|"]
    for f in sorted(glob.glob(os.path.join(ROOT, "seeded", "*", "meta.json"))):
        m = json.load(open(f))
        rows.append("| %s | %s | %s | %s | %s | %s |" % (
            os.path.basename(os.path.dirname(f)), m["property"], m["summary"].replace("|", "/")[:260], m["needs"].replace("|", "/")[:220],
            ", ".join(m.get("caught_by", [])) or "-", m.get("clause", "-")))
    return "\n".join(rows)


def spec_table():
    rows = ["| module | lines | role |", "|---|---:|---|"]
    for f in sorted(glob.glob(os.path.join(ROOT, "spec", "*.tla"))):
        txt = open(f).read()
        m = re.search(r"\(\*\s*(.*?)\*\)", txt, re.S)
        role = " ".join(m.group(1).replace("*)", "").replace("(*", "").split())[:170] if m else ""
        rows.append("| %s | %d | %s |" % (os.path.basename(f)[:-4], txt.count("\n"), role))
    return "\n".join(rows)


def main():
    p = os.path.join(ROOT, "DESIGN.md")
    s = open(p).read()
    for name, fn in (("EVIDENCE", evidence_table), ("SEEDED", seeded_table), ("SPEC", spec_table)):
        a, b = "<!-- BEGIN %s -->" % name, "<!-- END %s -->" % name
        if a in s and b in s:
            s = s[:s.index(a) + len(a)] + "\n" + fn() + "\n" + s[s.index(b):]
    open(p, "w").write(s)
    print("tables regenerated")


if __name__ == "__main__":
    main()
