"""tools/mutation_sweep.py <results.jsonl> <outdir> [limit] [parallel] - run the quick checks that own a function against the single-token
mutants of that function that survive the repository's tests. One line per mutant: which checks caught it. Scratch worktrees only."""
import json, os, random, subprocess, sys
from concurrent.futures import ThreadPoolExecutor

OWN = {"encode": ["C05", "C04", "C01"], "decode": ["C06", "C01", "C07"], "set_vt": ["C07"], "repair_dna": ["C08", "C09", "C10"], "path_matching": ["C08", "C09"],
       "find_vertices": ["C11", "C02"], "connect_valid_graph": ["C11"], "connect_coding_graph": ["C03", "C04"], "create_random_shuffles": ["C18"],
       "remove_nasty_arc": ["C19"], "calculate_intersection_score": ["C19"], "valid": ["C12", "C02"], "__init__": ["C02", "C12"],
       "accessor_to_adjacency_matrix": ["C14"], "adjacency_matrix_to_accessor": ["C14", "C13"], "accessor_to_latter_map": ["C14"],
       "latter_map_to_accessor": ["C14", "C13", "C03"], "remove_useless": ["C03"], "obtain_leaf_vertices": ["C14", "C19"], "obtain_vertices": ["C14"],
       "obtain_formers": ["C13"], "obtain_latters": ["C13"], "get_complete_accessor": ["C13"], "approximate_capacity": ["C17"],
       "calculus_addition": ["C15"], "calculus_subtraction": ["C15"], "calculus_multiplication": ["C15"], "calculus_division": ["C15"],
       "number_to_bit": ["C16"], "bit_to_number": ["C16"], "number_to_dna": ["C16", "C07"], "dna_to_number": ["C16", "C08"]}


def one(job):
    i, m, outdir = job
    d = os.path.join(outdir, "mt%04d" % i)
    os.makedirs(d, exist_ok=True)
    wt = d + ".wt"
    subprocess.run(["git", "-C", "/repo", "worktree", "add", "-q", "--detach", wt, "HEAD"], check=True)
    subprocess.run([sys.executable, "/verif/tools/mutate.py", "apply", wt, json.dumps(m)], check=True)
    diff = subprocess.run(["git", "-C", wt, "diff"], stdout=subprocess.PIPE).stdout.decode()
    subprocess.run(["git", "-C", "/repo", "worktree", "remove", "--force", wt])
    open(os.path.join(d, "patch.diff"), "w").write(diff)
    json.dump(m, open(os.path.join(d, "mutant.json"), "w"))
    caught = []
    log = ""
    for cid in OWN.get(m["function"], []):
        p = subprocess.run(["/verif/tools/try_mutant.sh", os.path.join(d, "patch.diff"), cid], stdout=subprocess.PIPE, stderr=subprocess.STDOUT)
        out = p.stdout.decode()
        log += out
        if " rc=1 " in out:
            caught.append(cid)
            break
        if " rc=2" in out:
            caught.append(cid + ":machinery")
            break
    open(os.path.join(d, "sweep.txt"), "w").write(log)
    line = "%04d %s:%d %s %r->%r  [%s]  caught=%s" % (i, m["file"], m["line"], m["function"], m["old"], m["new"], m["text"][:70], caught)
    print(line, flush=True)
    return line


if __name__ == "__main__":
    res = [json.loads(l) for l in open(sys.argv[1])]
    outdir = sys.argv[2]
    limit = int(sys.argv[3]) if len(sys.argv) > 3 else 60
    par = int(sys.argv[4]) if len(sys.argv) > 4 else 3
    surv = [r["m"] for r in res if "30 passed" in r["tests"]]
    random.Random(7).shuffle(surv)
    done = set()
    for d in os.listdir(outdir) if os.path.isdir(outdir) else []:
        p = os.path.join(outdir, d, "mutant.json")
        if os.path.exists(p):
            m = json.load(open(p))
            done.add((m["file"], m["line"], m["col"], m["new"]))
    surv = [m for m in surv if (m["file"], m["line"], m["col"], m["new"]) not in done]
    rec = os.path.join(os.path.dirname(os.path.dirname(os.path.abspath(__file__))), "seeded", "token_mutants_sweep.txt")
    if os.path.exists(rec):          # mutants of earlier sweeps (recorded without the column: skip by file, line and replacement)
        import re
        old = set()
        for l in open(rec):
            mm = re.match(r"\d+ (\S+):(\d+) \S+ '([^']*)'->'([^']*)'", l)
            if mm:
                old.add((mm.group(1), int(mm.group(2)), mm.group(3), mm.group(4)))
        surv = [m for m in surv if (m["file"], m["line"], m["old"], m["new"]) not in old]
    cap = int(os.environ.get("MUT_CAP", "6"))
    base = len(done)
    # stratify: at most cap per function
    per, pick = {}, []
    for m in surv:
        if per.get(m["function"], 0) < cap:
            per[m["function"]] = per.get(m["function"], 0) + 1
            pick.append(m)
    pick = pick[:limit]
    os.makedirs(outdir, exist_ok=True)
    with ThreadPoolExecutor(par) as ex:
        list(ex.map(one, [(base + i, m, outdir) for i, m in enumerate(pick)]))
