"""Copies confirmed seeded changes into /verif/seeded/<id>/ with meta.json (python3 tools/collect_seeded.py <seed_out> <confirm.log> <sweep dir> [suffix])."""
import json, os, re, shutil, sys
src, conf, sweep = sys.argv[1], sys.argv[2], sys.argv[3]
suffix = sys.argv[4] if len(sys.argv) > 4 else ""
ROOT = os.path.dirname(os.path.dirname(os.path.abspath(__file__)))
confirmed = {}
for l in open(conf):
    try:
        d = json.loads(l)
    except ValueError:
        continue
    confirmed[d["mutant"]] = d
n = 0
for pid in sorted(os.listdir(src)):
    for m in ("m1", "m2"):
        d = os.path.join(src, pid, m)
        if not os.path.isdir(d) or not os.path.exists(os.path.join(d, "patch.diff")):
            continue
        c = confirmed.get(d)
        if not c or not c["applies"] or "30 passed" not in c["tests"] or c["demo_rc_unpatched"] != "0":
            print("skip (not confirmed):", d, c)
            continue
        name = "%s-%s%s" % (pid, m, suffix)
        out = os.path.join(ROOT, "seeded", name)
        os.makedirs(out, exist_ok=True)
        shutil.copy(os.path.join(d, "patch.diff"), out)
        shutil.copy(os.path.join(d, "demo.py"), out)
        meta = json.load(open(os.path.join(d, "meta.json")))
        meta = {"property": meta.get("property", pid), "summary": meta.get("summary", ""), "needs": meta.get("needs", ""), "files": meta.get("files", [])}
        meta["confirmed"] = {"patch_applies_to_HEAD": True, "suite_with_patch": c["tests"], "demo_exit_unpatched": int(c["demo_rc_unpatched"]),
                             "demo_exit_patched": int(c["demo_rc_patched"]),
                             "ran": "tools/confirm_mutant.sh (scratch worktree: git apply, pytest tests, demo.py with and without the patch)"}
        meta["obsolete"] = c["demo_rc_patched"] == "0"
        sw = os.path.join(sweep, "%s_%s.txt" % (pid, m))
        meta["caught_by"], meta["clause"] = [], "-"
        if os.path.exists(sw):
            txt = open(sw).read()
            for mm in re.finditer(r"^(C\d\d) rc=(\d+) (\d+) violation lines;\s*(?:clause=(\S+))?", txt, re.M):
                if mm.group(2) == "1":
                    meta["caught_by"].append(mm.group(1))
                    meta["clause"] = mm.group(4) or "-"
            meta["check_run"] = "tools/try_mutant.sh seeded/%s/patch.diff %s -> %s" % (name, pid, txt.strip().splitlines()[0][:200] if txt.strip() else "no output")
        json.dump(meta, open(os.path.join(out, "meta.json"), "w"), indent=1)
        n += 1
print("collected", n)
