"""C06 - decoding accepts exactly the strands that are walks of the graph."""
import json
import random

import numpy

import dsw
from vlib import codingflow as cf
from vlib import impl
from vlib.core import Machinery

RULE = ("Flow A: TLC runs the decoder machine on every string up to MaxLen over {A,C,G,T,foreign} x order-1 graphs with dead ends and "
        "every out-degree x starts x modes x check variants (none, right, one symbol off, junk), checks AcceptIffWalk / WalkValue / "
        "FastValue on the spec and exports outcome and bits; decode must return exactly those bits or raise ValueError and nothing "
        "else (fast mode judged only when in the property's scope, decided by TLC). Flow B: walks corrupted by seeded edit "
        "scripts, random strings and foreign characters on graphs of orders 2..5, judged by Trace_Coding. "
        "Distinct non-trivial = distinct judged (graph, start, string, mode, width, check) with a non-empty string.")

MINE = {"accepts-non-walk", "rejects-walk", "wrong-exception-type", "wrong-length", "decoded-value"}


def replay_dec(rec):
    acc = impl.accessor(rec["live"])
    tbl = [rec["row"]] * len(rec["live"])
    s = impl.dna(rec["dna"], salt=rec["start"] + len(rec["dna"]))
    chk = None if rec["ck"] == "none" else impl.dna(rec["chk"], salt=1)
    d = cf.run_decode(acc, rec["start"], s, rec["w"], rec["mode"], chk, tbl)
    if not rec["scope"]:
        return "vacuous"
    bad = []
    if rec["out"] == "ok":
        if d["out"] != "ok":
            bad.append(("rejects-walk", "returns %d bits" % rec["w"], d["out"]))
        elif len(d["bits"]) != rec["w"]:
            bad.append(("wrong-length", rec["w"], len(d["bits"])))
        elif d["bits"] != rec["bits"]:
            bad.append(("decoded-value", rec["bits"], d["bits"]))
    else:
        if d["out"] == "ok":
            bad.append(("accepts-non-walk", "ValueError", d["bits"]))
        elif d["out"] != "ValueError":
            bad.append(("wrong-exception-type", "ValueError", d["out"]))
    return bad


def flow_a(ctx, mine, walks_only=False):
    if walks_only:
        cfg = "MC_Decode_walks.cfg" if ctx.quick else "MC_Decode_walks_thorough.cfg"
    else:
        cfg = "MC_Decode_%s.cfg" % ctx.tier
    r = ctx.tlc("MC_Decode", cfg, workers=16, timeout=3400, heap="14g")
    recs = r.records
    if len(recs) < 100000:
        raise Machinery("too few exported decoder behaviours: %d" % len(recs))
    res = impl.pmap(replay_dec, recs)
    for rec, bad in zip(recs, res):
        if bad == "vacuous":
            ctx.vacuous += 1
            continue
        ctx.judged()
        if rec["dna"]:
            ctx.mark("D" + json.dumps([rec["live"], rec["start"], rec["dna"], rec["mode"], rec["w"], rec["ck"], rec["row"]]))
        for clause, exp, obs in bad:
            if clause in mine:
                ctx.violation(clause, {k: rec[k] for k in ("live", "row", "start", "dna", "mode", "w", "ck", "chk")}, exp, impl.jsonable(obs))
    pick = [x for x in recs if x["out"] == "valueerror" and len(x["dna"]) == 3 and 4 in x["dna"]]
    ctx.sample({"flow": "A", "record": (pick or recs)[len(pick) // 2 if pick else 0]})
    return len(recs)


def record_dec_cases(rng, n, walks_bias=0.4):
    graphs, tables, cases = [], [], []
    for i in range(n):
        k = rng.choice([2, 2, 3, 3, 4, 5])
        if i % 3 == 0:
            live = cf.random_live(rng, k, rng.choice([0.4, 0.7, 1.0]))
        else:
            live = cf.generated_live(rng, k) or cf.random_live(rng, k, 0.8)
        if i % 4 == 0:
            live = [L if len(L) != 3 else L[:2] for L in live]
        graphs.append(live)
        g = len(graphs)
        acc = impl.accessor(live)
        for j in range(4):
            start = cf.pick_start(rng, live)
            # a walk from start (as far as it goes), then possibly corrupted
            L = rng.choice([0, 1, 2, 5, 12, 28, 33, 37, 40, 45, 120])
            s, v = [], start
            for _ in range(L):
                if not live[v]:
                    break
                a = rng.choice(live[v])
                s.append(a)
                v = (4 * v + a) % len(live)
            if rng.random() > walks_bias:
                kind = rng.randrange(5)
                if kind == 0 and s:
                    p = rng.randrange(len(s))
                    s[p] = (s[p] + rng.randint(1, 3)) % 4
                elif kind == 1:
                    s.insert(rng.randint(0, len(s)), rng.randrange(4))
                elif kind == 2 and s:
                    del s[rng.randrange(len(s))]
                elif kind == 3 and s:
                    s[rng.randrange(len(s))] = 4
                else:
                    s = [rng.randrange(4) for _ in range(rng.randint(1, 30))]
            mode = "fast" if (i % 4 == 0 and j < 2) else "normal"
            w = rng.choice([1, 4, 8, 16, 64, 2 * len(s) + 2, max(1, len(s) // 2)])
            if rng.random() < 0.5:
                tables.append(cf.random_table(rng, 4 ** k))
                t, tbl = len(tables), tables[-1]
            else:
                t, tbl = 0, None
            st = impl.dna(s, salt=j)
            ck = rng.choice(["none", "none", "right", "off"])
            chk = []
            if ck != "none" and 4 not in s:
                nchk = rng.choice([1, 2, 3, 5, 33, 40])
                rv = impl.call(dsw.set_vt, st, nchk)
                if rv["out"] == "ok":
                    chk = impl.undna(rv["value"])
                    if ck == "off":
                        chk[0] = (chk[0] + 1) % 4
                else:
                    chk = [rng.randrange(4) for _ in range(nchk)]       # any string may be supplied as a check
            d = cf.run_decode(acc, start, st, w, mode, impl.dna(chk) if chk else None, tbl)
            cases.append({"kind": "dec", "g": g, "tbl": t, "start": start, "dna": s, "mode": mode, "w": w, "chk": chk,
                          "out": d["out"], "bits": d["bits"]})
        if i % 2 == 1 and k <= 3:
            inplace_history(rng, graphs, cases, k, live, acc)
    return graphs, tables, cases


def inplace_history(rng, graphs, cases, k, live, acc):
    """The same accessor OBJECT before and after a documented in-place edit (arc removal): a strand through the arc that goes
    away is decoded before (accepted) and after (must be rejected) the edit."""
    probe = impl.call(dsw.remove_nasty_arc, acc.copy(), dsw.accessor_to_latter_map(acc.copy()), _alarm=60)
    if probe["out"] != "ok":
        return
    former, latter = int(probe["value"][2][0]), int(probe["value"][2][1])
    s, v = [latter % 4], latter
    for _ in range(rng.choice([3, 10, 30])):
        if not live[v]:
            break
        a = rng.choice(live[v])
        s.append(a)
        v = (4 * v + a) % len(live)
    gi = graphs.index(live) + 1
    w = 4 * len(s) + 8
    d = cf.run_decode(acc, former, impl.dna(s), w, "normal", None, None)
    cases.append({"kind": "dec", "g": gi, "tbl": 0, "start": former, "dna": s, "mode": "normal", "w": w, "chk": [], "out": d["out"], "bits": d["bits"]})
    r = impl.call(dsw.remove_nasty_arc, acc, dsw.accessor_to_latter_map(acc), _alarm=60)
    if r["out"] != "ok":
        return
    graphs.append(impl.live_of(acc))
    d = cf.run_decode(acc, former, impl.dna(s), w, "normal", None, None)
    cases.append({"kind": "dec", "g": len(graphs), "tbl": 0, "start": former, "dna": s, "mode": "normal", "w": w, "chk": [], "out": d["out"], "bits": d["bits"]})


def flow_b(ctx, mine, n, salt, walks_bias=0.4):
    rng = random.Random(ctx.seed * 29996224275833 % (2 ** 31) + salt)
    graphs, tables, cases = record_dec_cases(rng, n, walks_bias)
    got = cf.validate(ctx, graphs, tables, cases, name="decode_trace_%d.json" % salt)
    for i, c in enumerate(cases, 1):
        v = got[i]
        if v == ["out-of-scope"]:
            ctx.vacuous += 1
            continue
        ctx.judged()
        if c["dna"]:
            ctx.mark("E" + json.dumps([c["g"], c["start"], c["dna"], c["mode"], c["w"], c["chk"], c["tbl"]]))
        for cl in v:
            if cl in mine:
                small = {k: c[k] for k in ("start", "dna", "mode", "w", "chk", "out")}
                small["live"] = graphs[c["g"] - 1] if len(graphs[c["g"] - 1]) <= 64 else "order>3 (seeded)"
                small["table"] = tables[c["tbl"] - 1] if c["tbl"] and len(graphs[c["g"] - 1]) <= 64 else ("random" if c["tbl"] else "none")
                ctx.violation(cl, small, "ok", cl)
    ctx.sample({"flow": "B", "case": {k: cases[2][k] for k in ("start", "dna", "mode", "w", "chk", "out")}, "verdict": got[3]})
    return len(cases)


def run(ctx):
    ctx.tlc("MC_Decode", "MC_Decode_witness1.cfg", expect_violation=True, workers=8, heap="8g")
    ctx.tlc("MC_Decode", "MC_Decode_witness2.cfg", expect_violation=True, workers=8, heap="8g")
    na = flow_a(ctx, MINE)
    ctx.exhaustive = True
    nb = flow_b(ctx, MINE, 100 if ctx.quick else 1000, 6)
    if not ctx.quick:
        from vlib import suiteflow
        suiteflow.judge(ctx, mine_coding=MINE)           # Flow S: the repository's own tests as trace sources
    ctx.assumptions += ["fast mode is judged only on graphs without out-degree 3 and strings whose walkable prefix carries at most "
                        "the requested number of bits (decided by TLC)", "foreign characters are drawn from a fixed rotating set"]
    return {"scope": {"flowA_behaviours": na, "flowB_cases": nb}}


def replay(ctx, v):
    c = v["case"]
    if isinstance(c.get("live"), list):
        acc = impl.accessor(c["live"])
        tbl = [c["row"]] * len(c["live"]) if "row" in c else (c.get("table") if isinstance(c.get("table"), list) else None)
        chk = impl.dna(c["chk"]) if c.get("chk") else None
        print("replay: decode ->", cf.run_decode(acc, c["start"], impl.dna(c["dna"]), c["w"], c["mode"], chk, tbl))
    print(json.dumps(v, indent=1)[:1500])
    return 1
