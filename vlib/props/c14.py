"""C14 - the three graph representations are interchangeable."""
import json
import os
import random

import numpy

import dsw
from vlib import impl
from vlib.core import Machinery

RULE = ("Flow A: TLC enumerates order-1 arc subsets (4096 quick / all 65536 thorough), checks RoundTrips, Contents, LeavesAgree "
        "(depth 0..3, against walk counts) on the spec and exports latter map, matrix, vertex list and sorted leaf multisets; "
        "the real conversions and queries are replayed on each. Flow B: seeded arbitrary arc subsets of orders 1..6 (not vertex "
        "induced) and matrices with one illegal arc are recorded from the code and judged by Trace_Views. "
        "Distinct non-trivial = distinct graphs with at least two arcs (by digest) / distinct illegal matrices.")


def _outcome(r):
    return "ok" if r["out"] == "ok" else (r["type"] if r["out"] == "exc" else r["out"])


def _replay_one(rec):
    live = rec["live"]
    acc = impl.accessor(live)
    keep = acc.copy()
    n = len(live)
    bad = []
    r = impl.call(dsw.accessor_to_latter_map, acc)
    lm = r["value"] if r["out"] == "ok" else None
    want = {v: rec["lmap"][v] for v in range(n) if rec["lmap"][v]}
    got = None if lm is None else {impl.index_of(k): sorted(impl.index_of(x) for x in vs) for k, vs in lm.items()}
    if got != {k: sorted(v) for k, v in want.items()}:
        bad.append(("latter-map-content", want, impl.jsonable(got if got is not None else r)))
    if lm is not None:
        r = impl.call(dsw.latter_map_to_accessor, lm, 1)
        if r["out"] != "ok" or not numpy.array_equal(r["value"], keep):
            bad.append(("latter-map-round-trip", impl.acc_list(keep), impl.jsonable(r.get("value", r))))
        # the same graph as a user would write it down: plain ints, keys and successors in another order
        user = {int(k): [int(x) for x in reversed(list(lm[k]))] for k in reversed(list(lm.keys()))}
        r = impl.call(dsw.latter_map_to_accessor, user, 1)
        if r["out"] != "ok" or not numpy.array_equal(r["value"], keep):
            bad.append(("latter-map-round-trip", impl.acc_list(keep), {"user_map": user, "got": impl.jsonable(r.get("value", r))}))
    r = impl.call(dsw.accessor_to_adjacency_matrix, acc)
    if r["out"] != "ok" or impl.jsonable(r["value"]) != rec["matrix"]:
        bad.append(("matrix-content", rec["matrix"], impl.jsonable(r.get("value", r))))
    else:
        r2 = impl.call(dsw.adjacency_matrix_to_accessor, r["value"])
        if r2["out"] != "ok" or not numpy.array_equal(r2["value"], keep):
            bad.append(("matrix-round-trip", impl.acc_list(keep), impl.jsonable(r2.get("value", r2))))
    r = impl.call(dsw.obtain_vertices, acc)
    if r["out"] != "ok" or sorted(impl.index_of(x) for x in r["value"]) != rec["verts"] or len(r["value"]) != len(rec["verts"]):
        bad.append(("vertex-listing", rec["verts"], impl.jsonable(r.get("value", r))))
    for v in range(n):
        for d, want_l in enumerate(rec["leaves"][v]):
            ra = impl.call(dsw.obtain_leaf_vertices, v, d, accessor=acc)
            rl = impl.call(dsw.obtain_leaf_vertices, v, d, latter_map=lm) if lm is not None else {"out": "skip"}
            for which, rr in (("accessor", ra), ("latter_map", rl)):
                if rr["out"] == "skip":
                    continue
                g = sorted(impl.index_of(x) for x in rr["value"]) if rr["out"] == "ok" else rr
                if g != want_l:
                    bad.append(("leaf-query", {"v": v, "d": d, "from": which, "leaves": want_l}, impl.jsonable(g)))
    if not numpy.array_equal(acc, keep):
        bad.append(("argument-modified", "accessor unchanged", "changed"))
    return bad


def record(rng, ngraph, nillegal):
    cases = []
    for i in range(ngraph):
        k = rng.choice([1, 2, 2, 3, 3, 4, 5, 6])
        n = 4 ** k
        dens = rng.choice([0.1, 0.3, 0.5, 0.8, 1.0])
        live = [[j for j in range(4) if rng.random() < dens] for _ in range(n)]
        if i % 9 == 0:     # make the first vertices have only an arc to vertex 0 / only self loops
            live[0] = [0]
            if n > 4:
                live[n // 4] = [0]
        acc = impl.accessor(live)
        c = {"kind": "graph", "k": k, "live": live}
        r = impl.call(dsw.accessor_to_latter_map, acc)
        lm = r["value"] if r["out"] == "ok" else {}
        c["lmap"] = [[impl.index_of(a), [impl.index_of(x) for x in b]] for a, b in lm.items()]
        if i % 2 == 1:      # a user-written map: plain ints, keys and successor lists in arbitrary order
            keys = [int(a) for a in lm.keys()]
            rng.shuffle(keys)
            user = {}
            for a in keys:
                vs = [int(x) for x in lm[a]]
                rng.shuffle(vs)
                user[a] = vs
            r = impl.call(dsw.latter_map_to_accessor, user, k)
        else:
            r = impl.call(dsw.latter_map_to_accessor, lm, k)
        c["back_lm"] = impl.acc_list(r["value"]) if r["out"] == "ok" else []
        c["has_matrix"] = k <= 3 or (k == 4 and i % 2 == 0)          # order 4: successor indices beyond 127
        c["ones"], c["back_mx"] = [], []
        if c["has_matrix"]:
            r = impl.call(dsw.accessor_to_adjacency_matrix, acc)
            if r["out"] == "ok":
                m = r["value"]
                c["ones"] = [[int(u), int(w)] for u, w in zip(*numpy.nonzero(m))]
                if int(m.sum()) != len(c["ones"]) or ((m != 0) & (m != 1)).any():
                    c["ones"].append([0, 0]) or c["ones"].append([0, 0])     # entries other than 0/1 -> duplicate marks content wrong
                r2 = impl.call(dsw.adjacency_matrix_to_accessor, m)
                c["back_mx"] = impl.acc_list(r2["value"]) if r2["out"] == "ok" else []
        r = impl.call(dsw.obtain_vertices, acc)
        c["verts"] = [impl.index_of(x) for x in r["value"]] if r["out"] == "ok" else [-1]
        c["leaf"] = []
        for _ in range(6):
            v, d = rng.randrange(n), rng.randint(0, 4 if k <= 4 else 3)
            ra = impl.call(dsw.obtain_leaf_vertices, v, d, accessor=acc)
            rl = impl.call(dsw.obtain_leaf_vertices, v, d, latter_map=lm)
            c["leaf"].append({"v": v, "d": d,
                              "acc": sorted(impl.index_of(x) for x in ra["value"]) if ra["out"] == "ok" else [-1],
                              "lm": sorted(impl.index_of(x) for x in rl["value"]) if rl["out"] == "ok" else [-1]})
        cases.append(c)
    for i in range(nillegal):
        k = rng.choice([2, 2, 3])
        n = 4 ** k
        base = rng.choice(["empty", "complete", "random"])
        live = [[] if base == "empty" else ([0, 1, 2, 3] if base == "complete" else [j for j in range(4) if rng.random() < 0.5])
                for _ in range(n)]
        m = dsw.accessor_to_adjacency_matrix(impl.accessor(live))
        if i % 5 != 4:
            u = rng.randrange(n)
            w = rng.choice([x for x in range(n) if x // 4 != (4 * u % n) // 4])
            if i % 3 == 0:                       # right next to the legal successor block
                first = (4 * u) % n
                w = rng.choice([(first - 1) % n, (first - 2) % n, (first - 3) % n, (first + 4) % n, (first + 5) % n])
            m[u, w] = 1
        r = impl.call(dsw.adjacency_matrix_to_accessor, m)
        cases.append({"kind": "illegal", "k": k, "ones": [[int(u), int(w)] for u, w in zip(*numpy.nonzero(m))], "outcome": _outcome(r)})
    # argument validation (conformance tier)
    acc1 = dsw.get_complete_accessor(1)
    lm1 = dsw.accessor_to_latter_map(acc1)
    for ha, hl in ((True, True), (False, False), (True, False), (False, True)):
        r = impl.call(dsw.obtain_leaf_vertices, 0, 1, accessor=acc1 if ha else None, latter_map=lm1 if hl else None)
        cases.append({"kind": "args", "fn": "leaf", "has_acc": ha, "has_lm": hl, "outcome": _outcome(r)})
    probes = [(dsw.get_complete_accessor(2), 8), (dsw.get_complete_accessor(2), 2), (dsw.get_complete_accessor(3), 3),
              (dsw.get_complete_accessor(2)[:, :3], 8), (dsw.get_complete_accessor(2) - 2, 8), (dsw.get_complete_accessor(2) + 1, 8)]
    for a, ml in probes:
        r = impl.call(dsw.accessor_to_adjacency_matrix, a, maximum_length=ml)
        cases.append({"kind": "args", "fn": "matrix", "nrows": int(a.shape[0]), "ncols": int(a.shape[1]), "min": int(a.min()), "max": int(a.max()),
                      "maxlen": ml, "outcome": _outcome(r)})
    return cases


def run(ctx):
    ctx.tlc("MC_Views", "MC_Views_witness.cfg", expect_violation=True, workers=8)
    r = ctx.tlc("MC_Views", "MC_Views_%s.cfg" % ctx.tier, workers=16, timeout=3400, heap="12g")
    recs = r.records
    if len(recs) != (4096 if ctx.quick else 65536):
        raise Machinery("unexpected number of exported graphs: %d" % len(recs))
    ctx.exhaustive = True
    res = impl.pmap(_replay_one, recs)
    for rec, bad in zip(recs, res):
        ctx.judged()
        if sum(len(x) for x in rec["live"]) >= 2:
            ctx.mark("A" + json.dumps(rec["live"]))
        for clause, exp, obs in bad:
            ctx.violation(clause, {"kind": "graph", "k": 1, "live": rec["live"]}, exp, obs)
    ctx.sample({"flow": "A", "record": recs[1234]})
    rng = random.Random(ctx.seed * 67867967 + 14)
    cases = record(rng, 120 if ctx.quick else 900, 200 if ctx.quick else 1500)
    path = os.path.join(ctx.workdir, "c14_trace.json")
    with open(path, "w") as f:
        json.dump({"cases": cases}, f)
    r = ctx.tlc("Trace_Views", "Trace.cfg", env={"TRACE_FILE": path}, workers=16, timeout=3400, heap="12g")
    got = {x["cid"]: x["verdict"] for x in r.records if "verdict" in x}
    if len(got) != len(cases):
        raise Machinery("trace validation returned %d verdicts for %d cases" % (len(got), len(cases)))
    for i, c in enumerate(cases, 1):
        if c["kind"] == "args":
            if got[i] != "ok":
                ctx.divergence(got[i], {k: v for k, v in c.items() if k != "kind"})
            continue
        ctx.judged()
        ctx.mark("B" + json.dumps(c.get("live", c.get("ones"))))
        if got[i] != "ok":
            small = {k: v for k, v in c.items() if k in ("kind", "k", "live", "outcome", "ones") and (k != "live" or c["k"] <= 2)}
            ctx.violation(got[i].split(":", 1)[1], small, "ok", got[i])
    g = [c for c in cases if c["kind"] == "graph" and c["k"] == 2][0]
    ctx.sample({"flow": "B", "case": {"k": 2, "live": g["live"], "lmap": g["lmap"], "leaf": g["leaf"][:2]}, "verdict": "ok"})
    ctx.assumptions += ["leaf queries are compared as multisets", "matrices carry 0/1 entries"]
    return {"scope": {"order1_graphs": len(recs), "flowB_graphs": sum(1 for c in cases if c["kind"] == "graph"),
                      "flowB_matrices": sum(1 for c in cases if c["kind"] == "illegal")}}


def replay(ctx, v):
    c = v["case"]
    if c.get("kind") == "graph" and "live" in c:
        rec_like = _replay_one
        print("replay: re-running conversions on", c["live"])
        acc = impl.accessor(c["live"])
        lm = dsw.accessor_to_latter_map(acc)
        print("  latter map:", impl.jsonable(lm))
        print("  back:", impl.acc_list(dsw.latter_map_to_accessor(lm, c.get("k", 1))))
    print(json.dumps(v, indent=1)[:2000])
    return 1
