"""C15 - string big-number arithmetic equals integer arithmetic."""
import json
import os
import random

import dsw
from vlib import impl
from vlib.core import Machinery

RULE = ("Flow A: TLC enumerates every canonical decimal string up to MaxDigits digits x operand 0..9 x {add, mul, div, sub}, "
        "steps the digit-serial machines one loop iteration per action (refinement invariants in every state, exactness at the "
        "end) and exports (input, result, transition path); every record is replayed into calculus_*. Flow B: seeded strings up "
        "to 4400 digits, including carry/borrow chains and products that are exact powers of ten, are run through the code and re-computed by the machines in "
        "Trace_Bignum. Distinct non-trivial = distinct (op, number, operand) with at least two digits.")

FN = {"add": dsw.calculus_addition, "mul": dsw.calculus_multiplication, "div": dsw.calculus_division,
      "sub": dsw.calculus_subtraction}


def s10(ds):
    return "".join(str(d) for d in ds)


def _replay_one(rec):
    r = impl.call(FN[rec["op"]], s10(rec["num"]), str(rec["b"]))
    if rec["op"] == "div":
        exp = (s10(rec["res"]), str(rec["rem"]))
        got = tuple(r["value"]) if r["out"] == "ok" else r
    else:
        exp = s10(rec["res"])
        got = r["value"] if r["out"] == "ok" else r
    return None if got == exp else (exp, got)


def gen_numbers(rng, n, maxlen):
    out = []
    shapes = ["rand", "nines", "one-zeros", "zeros-mid", "rand", "rand", "nines-tail", "small"]
    for i in range(n):
        L = rng.choice([1, 2, 3, 7, 19, 50, 51, 200, maxlen, rng.randint(1, maxlen)])
        sh = shapes[i % len(shapes)]
        if sh == "nines":
            ds = [9] * L
        elif sh == "one-zeros":
            ds = [1] + [0] * (L - 1)
        elif sh == "zeros-mid":
            ds = [rng.randint(1, 9)] + [0] * max(0, L - 2) + [rng.randint(0, 9)] * (1 if L > 1 else 0)
        elif sh == "nines-tail":
            ds = [rng.randint(1, 9)] + [rng.randint(0, 9) for _ in range(max(0, L // 2 - 1))] + [9] * (L - L // 2)
            ds = ds[:L] if len(ds) >= L else ds
        elif sh == "small":
            ds = [rng.randint(0, 9)]
        else:
            ds = [rng.randint(1, 9)] + [rng.randint(0, 9) for _ in range(L - 1)]
        out.append(ds)
    return out


def ripple_cases():
    """Inputs whose product with b is 10^M (+ a small rest): the carry ripples through every position, whatever the width in which an
    implementation groups digits; and 10^M - 1 + operand for addition, 10^M - operand for subtraction."""
    out = []
    for M in (5, 17, 18, 19, 20, 36, 37, 38, 54, 100):
        for b in range(2, 10):
            r = (-10 ** M) % b
            for extra in (0, b * 10 ** (M + 1), 7 * b * 10 ** (2 * M)):
                n = (10 ** M + r + extra) // b
                out.append(([int(c) for c in str(n)], "mul", b))
                out.append(([int(c) for c in str(n * b)], "div", b))
        out.append(([9] * M, "add", 1))
        out.append(([1] + [0] * M, "sub", 1))
    return out


def record_ops(rng, nums, fixed=()):
    cases = []
    todo = [(ds, op, None) for ds in nums for op in ("add", "mul", "div", "sub")] + [(ds, op, b) for ds, op, b in fixed]
    if True:
        for ds, op, fb in todo:
            b = rng.randint(0, 9) if fb is None else fb
            if op == "sub" and len(ds) == 1 and ds[0] < b:
                b = rng.randint(0, ds[0])
            r = impl.call(FN[op], s10(ds), str(b))
            c = {"kind": "op", "op": op, "num": ds, "b": b}
            if r["out"] != "ok":
                c["res"], c["rem"], c["raised"] = [], 0, r
            elif op == "div":
                c["res"], c["rem"] = [int(x) for x in r["value"][0]], int(r["value"][1])
            else:
                c["res"], c["rem"] = [int(x) for x in r["value"]], 0
            cases.append(c)
    return cases


def validate(ctx, cases, name):
    path = os.path.join(ctx.workdir, name)
    with open(path, "w") as f:
        json.dump({"cases": cases}, f)
    r = ctx.tlc("Trace_Bignum", "Trace.cfg", env={"TRACE_FILE": path}, workers=16, timeout=1800)
    got = {x["cid"]: x for x in r.records if "verdict" in x}
    if len(got) != len(cases):
        raise Machinery("trace validation returned %d verdicts for %d cases" % (len(got), len(cases)))
    return got


def run(ctx):
    ctx.tlc("MC_Bignum", "MC_Bignum_witness.cfg", expect_violation=True, workers=8)
    r = ctx.tlc("MC_Bignum", "MC_Bignum_%s.cfg" % ctx.tier, workers=16, timeout=3000, heap="12g")
    recs = r.records
    if len(recs) < 30000:
        raise Machinery("too few exported records: %d" % len(recs))
    ctx.exhaustive = True
    labels = set()
    res = impl.pmap(_replay_one, recs)
    for rec, bad in zip(recs, res):
        ctx.judged()
        for lb in rec["path"]:
            labels.add(tuple(lb))
        if len(rec["num"]) >= 2:
            ctx.mark("A:%s:%s:%d" % (rec["op"], s10(rec["num"]), rec["b"]))
        if bad:
            ctx.violation({"add": "addition", "mul": "multiplication", "div": "division", "sub": "subtraction"}[rec["op"]],
                          {"kind": "op", "op": rec["op"], "num": s10(rec["num"]), "b": rec["b"]}, bad[0], impl.jsonable(bad[1]))
    ctx.sample({"flow": "A", "record": recs[len(recs) // 3]})
    # ---- Flow B
    rng = random.Random(ctx.seed * 104729 + 15)
    nums = gen_numbers(rng, 120 if ctx.quick else 1200, 1300)
    nums += [[rng.randint(1, 9)] + [rng.randint(0, 9) for _ in range(4399)], [9] * 4400]        # beyond 4300 digits
    cases = record_ops(rng, nums, fixed=ripple_cases())
    got = validate(ctx, cases, "c15_trace.json")
    blabels = set()
    for i, c in enumerate(cases, 1):
        ctx.judged()
        for lb in got[i]["labels"]:
            blabels.add(tuple(lb))
        if len(c["num"]) >= 2:
            ctx.mark("B:%s:%s:%d" % (c["op"], s10(c["num"]), c["b"]))
        if got[i]["verdict"] != "ok":
            ctx.violation(got[i]["verdict"].split(":", 1)[1], {"kind": "op", "op": c["op"], "num": s10(c["num"]), "b": c["b"]},
                          "machine result", {"res": s10(c["res"]), "rem": c["rem"], "raised": c.get("raised")})
    ctx.sample({"flow": "B", "case": {"op": cases[5]["op"], "digits": len(cases[5]["num"]), "b": cases[5]["b"]}, "verdict": got[6]["verdict"]})
    missing = sorted(labels - blabels)
    ctx.notes["transitions_exercised_small_scope"] = len(labels)
    ctx.notes["transitions_exercised_long_inputs"] = len(blabels)
    ctx.notes["small_scope_transitions_not_met_on_long_inputs"] = [list(x) for x in missing[:20]]
    ctx.assumptions += ["operands are single digits 0..9 as the helpers document", "subtraction only with non-negative result"]
    from vlib import apalache
    ctx.notes["unbounded_lemmas"] = apalache.lemmas(["Ind_Mul", "Ind_Div", "Ind_Add"], ctx)
    return {"scope": {"MaxDigits": 3 if ctx.quick else 4, "flowB_numbers": len(nums), "flowB_max_digits": 1300}}


def replay(ctx, v):
    c = v["case"]
    r = impl.call(FN[c["op"]], c["num"], str(c["b"]))
    print("replay: %s(%s, %s) -> %s ; expected %s" % (c["op"], c["num"][:60], c["b"], impl.jsonable(r.get("value", r)), v["expected"]))
    cases = record_ops(random.Random(0), [])
    ds = [int(x) for x in c["num"]]
    rr = impl.call(FN[c["op"]], c["num"], str(c["b"]))
    cc = {"kind": "op", "op": c["op"], "num": ds, "b": c["b"], "res": [], "rem": 0}
    if rr["out"] == "ok":
        if c["op"] == "div":
            cc["res"], cc["rem"] = [int(x) for x in rr["value"][0]], int(rr["value"][1])
        else:
            cc["res"] = [int(x) for x in rr["value"]]
    got = validate(ctx, [cc], "replay.json")
    print("replay verdict:", got[1]["verdict"])
    return 0 if got[1]["verdict"] == "ok" else 1
