"""C20 - library calls are stateless and never modify their arguments."""
import copy
import collections
import hashlib
import io
import json
import os
import pickle
import random
import subprocess
import sys
from concurrent.futures import ThreadPoolExecutor
from contextlib import redirect_stdout

import numpy

import dsw
from vlib import codingflow as cf
from vlib import impl
from vlib.core import Machinery

RULE = ("Flow C: `tlc -simulate` on Library.tla (one action per public function over a workspace of shared accessors, messages, "
        "table, mask, latter map, filter, matrix; Frame is checked on the design) generates call sequences; each is executed on real "
        "shared objects with bit-level digests of every workspace object before and after every call and a digest of the result; "
        "every distinct call signature is also executed once in a newly started interpreter on pickled equal arguments; Trace_Library consumes the logs event by event: Frame (nothing but arc removal's own "
        "arguments changes) and Deterministic (result equals the memo entry of the signature, verbose not being part of it). "
        "Distinct non-trivial = distinct call signatures executed.")


# ------------------------------------------------------------------ canonical digests
def canon(v):
    if isinstance(v, numpy.ndarray):
        return ["nd", str(v.dtype), list(v.shape), v.tolist()]
    if isinstance(v, (numpy.integer,)):
        return ["npint", int(v)]
    if isinstance(v, (numpy.floating,)):
        return ["npfloat", repr(float(v))]
    if isinstance(v, (numpy.bool_,)):
        return ["npbool", bool(v)]
    if isinstance(v, float):
        return ["float", repr(v)]
    if isinstance(v, (list, tuple)):
        return [type(v).__name__] + [canon(x) for x in v]
    if isinstance(v, dict):
        return ["dict"] + [[canon(k), canon(x)] for k, x in v.items()]
    if isinstance(v, dsw.DefaultBioFilter):
        return ["filter", type(v).__name__, canon(dict(sorted(v.__dict__.items())))]
    return v


def digest(v):
    return hashlib.sha1(json.dumps(canon(v), sort_keys=False, default=str).encode()).hexdigest()[:16]


# ------------------------------------------------------------------ workspace
SLOTS = ["A1", "A2", "M1", "M2", "T1", "K1", "L1", "F1", "X1"]


def make_workspace(rng):
    ws = {}
    sparse = False
    for name in ("A1", "A2"):
        live = None
        for _ in range(10):
            live = cf.generated_live(rng, 2, t=rng.choice([1, 2, 2]))
            if live and sum(len(L) for L in live) >= 8:
                break
        if name == "A1" and rng.random() < 0.34:
            live = cf.random_live(rng, 2, 0.35)         # an arbitrary arc subset: dead ends within reach of every search
            sparse = True
        ws[name] = impl.accessor(live or [[0, 1, 2, 3]] * 16)
    ws["M1"] = numpy.array([rng.randrange(2) for _ in range(rng.choice([6, 9, 16]))], dtype=int)
    ws["M2"] = numpy.array([1] + [rng.randrange(2) for _ in range(rng.choice([0, 11, 69, 69]))], dtype=int)[rng.choice([0, 1]):]
    ws["T1"] = numpy.array(cf.random_table(rng, 16), dtype=int)
    ws["K1"] = numpy.array([rng.random() < 0.8 for _ in range(16)])
    ws["L1"] = dsw.accessor_to_latter_map(ws["A1"])
    if sparse or rng.random() < 0.4:
        ws["L1"] = collections.defaultdict(list, ws["L1"])      # a dict subclass users build latter maps with: a look-up must not insert
    ws["F1"] = dsw.LocalBioFilter(observed_length=2, max_homopolymer_runs=rng.choice([1, 2]), gc_range=rng.choice([[0.5, 0.5], [0, 1], None]),
                                  undesired_motifs=rng.choice([None, ["GC"], ["AT", "CG"]]))
    ws["X1"] = dsw.accessor_to_adjacency_matrix(impl.accessor(cf.random_live(rng, 2, 0.5)))
    return ws


def start_of(acc):
    vs = dsw.obtain_vertices(acc.copy())
    return int(vs[0]) if len(vs) else 0


def strand_for(msg, acc, table=None, start=None):
    """A strand derived from the message (computed on copies, not part of the log)."""
    try:
        kw = {"shuffles": table.copy()} if table is not None else {}
        s = dsw.encode(msg.copy(), acc.copy(), start_of(acc) if start is None else start, **kw)
        return s if len(s) >= 2 else "ACGTAC"
    except BaseException:  # noqa
        return "ACGTAC"


def corrupt(s):
    if len(s) < 3:
        return s
    i = len(s) // 2
    return s[:i] + "ACGT"[("ACGT".index(s[i]) + 1) % 4] + s[i + 1:]


def invoke(fn, param, a, verbose, seed_rng=True):
    """Perform one API call. `a` = list of argument objects in the order of Library.tla's `args`."""
    vb = {"verbose": True} if verbose else {}
    if fn == "encode":
        m, acc, t = a[:3]
        st = a[3] if len(a) > 3 else start_of(acc)
        kw = dict(is_faster=(param == "fast"), vt_length=3 if param == "normal+vt" else 0, need_path=(param == "normal+path"))
        return dsw.encode(m, acc, st, shuffles=t, **kw, **vb)
    if fn == "decode":
        m, acc, t = a[:3]
        st = a[3] if len(a) > 3 else start_of(acc)
        s = strand_for(m, acc, t, st)
        kw = dict(is_faster=(param == "fast"))
        if param == "normal+vt":
            kw["vt_check"] = dsw.set_vt(s, 3)
        return dsw.decode(s, len(m), acc, st, shuffles=t, **kw, **vb)
    if fn == "set_vt":
        m, acc = a
        return dsw.set_vt(strand_for(m, acc), 3 if param == "n=3" else 40)
    if fn == "repair_dna":
        m, acc = a
        s = strand_for(m, acc)
        kw = dict(has_indel=(param != "subs"))
        if param == "indel+vt":
            kw["vt_check"] = dsw.set_vt(s, 4)
        return dsw.repair_dna(corrupt(s), acc, start_of(acc), 2, **kw)
    if fn == "path_matching":
        m, acc = a
        s = strand_for(m, acc)
        return dsw.path_matching(corrupt(s)[:5], acc, start_of(acc), 1, has_indel=(param == "indel"))
    if fn == "find_vertices":
        return dsw.find_vertices(2, a[0], **vb)
    if fn == "filter_valid":
        f, m, acc = a
        return f.valid(strand_for(m, acc), only_last=(param == "last"))
    if fn == "connect_valid_graph":
        return dsw.connect_valid_graph(2, a[0], **vb)
    if fn == "connect_coding_graph":
        return dsw.connect_coding_graph(2, a[0], int(param[2:]), **vb)
    if fn == "create_random_shuffles":
        k, s = param.split(",")
        return dsw.create_random_shuffles(int(k[2:]), random_seed=int(s[5:]), **vb)
    if fn == "get_complete_accessor":
        return dsw.get_complete_accessor(int(param[2:]), **vb)
    if fn == "accessor_to_adjacency_matrix":
        return dsw.accessor_to_adjacency_matrix(a[0], **vb)
    if fn == "adjacency_matrix_to_accessor":
        return dsw.adjacency_matrix_to_accessor(a[0], **vb)
    if fn == "accessor_to_latter_map":
        return dsw.accessor_to_latter_map(a[0], **vb)
    if fn == "latter_map_to_accessor":
        return dsw.latter_map_to_accessor(a[0], 2, threshold=None if param == "none" else int(param[2:]), **vb)
    if fn == "remove_useless":
        return dsw.remove_useless(a[0], threshold=int(param[2:]), **vb)
    if fn == "obtain_vertices":
        return dsw.obtain_vertices(a[0])
    if fn == "obtain_leaf_vertices":
        acc, lm = a
        v = start_of(acc)
        if param.startswith("acc"):
            return dsw.obtain_leaf_vertices(v, int(param[-1]), accessor=acc)
        return dsw.obtain_leaf_vertices(v, int(param[-1]), latter_map=lm)
    if fn == "obtain_formers_latters":
        v, k = param.split(",")
        return dsw.obtain_formers(int(v[2:]), int(k[2:])), dsw.obtain_latters(int(v[2:]), int(k[2:]))
    if fn == "approximate_capacity":
        if "seed" in param:
            numpy.random.seed(5)          # "an equal seed for the randomised calls"
        kw = dict(repeats=3 if "repeats=3" in param else 1, process=("process" in param))
        return dsw.approximate_capacity(a[0], **kw, **vb)
    if fn == "calculate_intersection_score":
        return dsw.calculate_intersection_score(a[0], observed_length=2, has_insertion=("ins" in param), has_deletion=("del" in param), **vb)
    if fn == "remove_nasty_arc":
        acc, lm = a
        r = dsw.remove_nasty_arc(acc, lm, has_insertion=("ins" in param), has_deletion=True, **vb)
        return (r[0].copy(), copy.deepcopy(r[1]), r[2], r[3])
    if fn == "calculus":
        f = {"add": dsw.calculus_addition, "sub": dsw.calculus_subtraction, "mul": dsw.calculus_multiplication, "div": dsw.calculus_division}[param]
        return [f("9" * 30 + "7", b) for b in ("0", "1", "7", "9")]
    if fn == "conversions":
        m = a[0]
        if param.startswith("bits"):
            n = dsw.bit_to_number(m, is_string=param.endswith("str"), **vb)
            return n, dsw.number_to_bit(n, len(m))
        s = "".join("ACGT"[int(x) * 2 + 1] for x in m)
        n = dsw.dna_to_number(s, is_string=param.endswith("str"))
        return n, dsw.number_to_dna(n, len(s))
    raise Machinery("unknown function in history: %s" % fn)


def guarded(fn, param, args, verbose):
    buf = io.StringIO()
    r = impl.call(lambda: invoke(fn, param, args, verbose), _alarm=60, _quiet=False)
    return r


HOT = {}


def run_event(ws, e):
    args = [ws[s] for s in e["slots"]]
    if e["fn"] == "remove_nasty_arc":
        # learn on copies which arc will go, and use its source vertex once on the real object before the edit (an ordinary earlier
        # call of the session) and as start vertex afterwards
        acc, lm = args
        pr = impl.call(dsw.remove_nasty_arc, acc.copy(), copy.deepcopy(lm), has_insertion=("ins" in e["param"]), has_deletion=True)
        if pr["out"] == "ok":
            former = int(pr["value"][2][0])
            impl.call(dsw.encode, ws["M1"].copy(), acc, former, _budget=6000, _alarm=20)          # (an arbitrary arc subset may make encode loop)
            impl.call(lambda: dsw.decode(strand_for(ws["M1"], acc, None, former), len(ws["M1"]), acc, former), _budget=6000, _alarm=20)
            HOT[id(acc)] = former
    if e["fn"] in ("encode", "decode"):
        acc = args[1]
        st = HOT.get(id(acc))
        if st is not None and (acc[st] >= 0).any():
            args = args + [st]
    before = [digest(ws[s]) for s in SLOTS]
    sig = json.dumps([e["fn"], e["param"], [digest(x) for x in args]])
    pick = pickle.dumps((e["fn"], e["param"], args))
    buf = io.StringIO()
    with redirect_stdout(buf):
        r = impl.call(lambda: invoke(e["fn"], e["param"], args, e["verbose"]), _alarm=60, _budget=6000)   # a graph thinned by arc removal may make encode loop: end it by ticks, not by the clock
    res = ("ok:" + digest(r["value"])) if r["out"] == "ok" else ("exc:" + (r.get("type") or r["out"]))
    after = [digest(ws[s]) for s in SLOTS]
    if r["out"] == "ok":
        scramble(r["value"], [ws[s] for s in SLOTS])
    return {"fn": e["fn"], "param": e["param"], "sig": sig, "res": res, "verbose": bool(e["verbose"]), "inplace": e["fn"] == "remove_nasty_arc",
            "args": [SLOTS.index(s) + 1 for s in e["slots"]], "before": before, "after": after}, pick


def scramble(v, keep, depth=0):
    """The caller owns what a call returned: overwrite every mutable part of the result in place (unless it IS a workspace object,
    as with arc removal). A later call that hands out the same object again - a cache without a copy - then no longer returns what a
    fresh process would."""
    if any(v is k for k in keep) or depth > 3:
        return
    if isinstance(v, numpy.ndarray):
        if v.flags.writeable and v.size:
            try:
                v[...] = -7 if v.dtype.kind in "iuf" else v.flat[0]
            except Exception:  # noqa
                pass
    elif isinstance(v, list):
        for x in v:
            scramble(x, keep, depth + 1)
        v.reverse()
        v.append("scrambled")
    elif isinstance(v, dict):
        for x in list(v.values()):
            scramble(x, keep, depth + 1)
        v.clear()
    elif isinstance(v, tuple):
        for x in v:
            scramble(x, keep, depth + 1)


FRESH_SNIPPET = ("import sys, pickle, io, os\n"
                 "from contextlib import redirect_stdout\n"
                 "from vlib.props import c20\n"
                 "from vlib import impl\n"
                 "fn, param, args = pickle.load(open(sys.argv[1], 'rb'))\n"
                 "buf = io.StringIO()\n"
                 "with redirect_stdout(buf):\n"
                 "    r = impl.call(lambda: c20.invoke(fn, param, args, False), _alarm=60, _budget=6000)\n"
                 "res = ('ok:' + c20.digest(r['value'])) if r['out'] == 'ok' else ('exc:' + (r.get('type') or r['out']))\n"
                 "sys.stdout.write(res)\n")


def fresh_result(path):
    p = subprocess.run([sys.executable, "-c", FRESH_SNIPPET, path], stdout=subprocess.PIPE, stderr=subprocess.PIPE, timeout=180,
                       env=dict(os.environ))
    if p.returncode != 0:
        raise Machinery("fresh interpreter failed: %s" % p.stderr.decode()[-400:])
    return p.stdout.decode().strip()


def run(ctx):
    depth = 14
    nh = 60 if ctx.quick else 400
    ctx.tlc("Library", "Library_mc.cfg", workers=16, timeout=600, heap="8g") if not ctx.quick else None
    r = ctx.tlc("Library", "Library_sim.cfg", workers=1, timeout=600, simulate="num=%d" % (nh * 2), depth=depth + 1, seed=ctx.seed + 11)
    seen, hists = set(), []
    for rec in r.records:
        key = json.dumps(rec["hist"])
        if key not in seen and len(rec["hist"]) == depth:
            seen.add(key)
            hists.append(rec["hist"])
    hists = hists[:nh]
    if len(hists) < min(nh, 10):
        raise Machinery("simulation produced only %d histories" % len(hists))
    rng = random.Random(ctx.seed * 2860486313 % (2 ** 31) + 20)
    logs, pickles = [], {}
    rng_state = numpy.random.get_state()
    for h in hists:
        ws = make_workspace(rng)
        log = []
        for e in h:
            ev, pk = run_event(ws, e)
            log.append(ev)
            pickles.setdefault(ev["sig"], pk)
        logs.append(log)
    numpy.random.set_state(rng_state)
    # fresh-interpreter references
    sigs = sorted(pickles)
    # every distinct signature gets its fresh-interpreter reference (a call that follows an in-place edit of one of its
    # arguments has a signature of its own, so stale per-object caches are compared with a process that never saw the object)
    paths = {}
    for i, s in enumerate(sigs):
        p = os.path.join(ctx.workdir, "fresh_%d.pkl" % i)
        with open(p, "wb") as f:
            f.write(pickles[s])
        paths[s] = p
    with ThreadPoolExecutor(16) as ex:
        results = list(ex.map(lambda s: fresh_result(paths[s]), sigs))
    fresh = [{"sig": s, "res": res} for s, res in zip(sigs, results)]
    path = os.path.join(ctx.workdir, "c20_trace.json")
    with open(path, "w") as f:
        # all sequences ran one after the other in this process: for the memo they are ONE history (signatures carry the argument
        # digests, so equal signatures from different workspaces are comparable)
        flat = [ev for log in logs for ev in log]
        json.dump({"fresh": fresh, "hists": [flat]}, f)
    tr = ctx.tlc("Trace_Library", "Trace.cfg", env={"TRACE_FILE": path}, workers=8, timeout=1800, heap="8g")
    got = {x["hid"]: x for x in tr.records if "hid" in x}
    if len(got) != 1 or got[1]["events"] != len(flat):
        raise Machinery("trace validation did not consume the log to its end")
    if True:
        ctx.judged(len(flat))
        for ev in flat:
            ctx.mark(ev["sig"])
        for clause, l, fn in got[1]["verdict"]:
            ev = flat[l - 1]
            lo = (l - 1) // depth * depth
            ctx.violation(clause, {"sequence": [[x["fn"], x["param"], x["verbose"]] for x in flat[lo:l]], "event": l, "fn": fn, "param": ev["param"],
                                   "verbose": ev["verbose"], "changed_slots": [SLOTS[j] for j in range(len(SLOTS)) if ev["before"][j] != ev["after"][j]],
                                   "result": ev["res"]}, "frame / memo", clause)
    ctx.sample({"flow": "C", "history": [[x["fn"], x["param"], x["verbose"], x["res"][:10]] for x in logs[0]], "verdict": got[1]["verdict"]})
    ctx.notes["fresh_interpreter_calls"] = len(fresh)
    # growth: the progress monitor itself (spec/Monitor.tla) - design checked exhaustively, behaviours replayed under a virtual clock
    from vlib import monitorflow
    ctx.tlc("Monitor", "MC_Monitor_mc.cfg", workers=16, timeout=600)
    for w in ("1", "2"):   # vacuity guards: a completed run and the floating-point slack case are reachable in the model
        ctx.tlc("Monitor", "MC_Monitor_witness%s.cfg" % w, workers=4, timeout=120, expect_violation=True)
    monitorflow.run(ctx, 300 if ctx.quick else 3000)
    ctx.notes["functions_exercised"] = sorted(set(ev["fn"] for log in logs for ev in log))
    ctx.assumptions += ["results and arguments are compared through canonical digests (dtype, shape, values; dict order; filter attributes)",
                        "the two randomised calls are seeded identically in the shared and the fresh run",
                        "strands fed to decode/repair/set_vt are derived from the message and graph slots on copies, outside the log"]
    return {"scope": {"histories": len(logs), "events": sum(len(x) for x in logs), "depth": depth, "distinct_signatures": len(pickles)}}


def replay(ctx, v):
    print(json.dumps(v, indent=1)[:3000])
    return 1
