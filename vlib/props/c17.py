"""C17 - reported capacity is the log2 spectral radius of the graph."""
import json
import math
import os
import random

import numpy

import dsw
from vlib import codingflow as cf
from vlib import impl
from vlib.core import Machinery

RULE = ("The specification is the exact integer model behind the power iteration (walk counts W_n, estimates max W_n / max W_n-1, "
        "regularity, single primitive cyclic component, Birkhoff gap certificate, Collatz-Wielandt interval lo_n <= rho <= hi_n with "
        "monotonicity as action properties). TLC runs it on order-1 arc subsets (4096 quick / all 65 536 thorough) and on seeded "
        "graphs of orders 2..3 proposed by the harness; approximate_capacity is then run on every graph: result <= 2 in both modes, "
        "0.0 on arc-less graphs, exactly log2 d in deterministic mode on d-regular graphs, and on graphs TLC certifies to be in the "
        "property's class the random-start result (repeats 2, 3, 5; seeded global RNG) must lie in [log2 lo - 1e-4, log2 hi + 1e-4]; "
        "the deterministic mode is held to the same interval (known finding D9 when it stops at an exactly repeated estimate). "
        "Distinct non-trivial = distinct graphs with at least two arcs.")

TOL = 1e-4


def log2q(q):
    return math.log2(q[0] / q[1]) if q[0] > 0 and q[1] > 0 else float("-inf")


def cap(acc, repeats, seed=None):
    if seed is not None:
        numpy.random.seed(seed)
    r = impl.call(dsw.approximate_capacity, acc, repeats=repeats, _budget=repeats * 520 + 10, _alarm=120)
    if r["out"] != "ok":
        return r
    try:
        return float(r["value"])
    except Exception:  # noqa
        return {"out": "bad-return", "value": repr(r["value"])}


def _judge_one(rec):
    """Runs the real function on one graph and compares with the facts TLC derived. Returns (violations, info)."""
    if rec["live"] == "uniform":
        k, P = rec["uniform"]
        live = [P] * (4 ** k)
    else:
        live = rec["live"]
    acc = impl.accessor(live)
    keep = acc.copy()
    bad = []
    det = cap(acc, 1)
    rnd = {}
    seeds = [1, 2] if len(live) <= 1024 else [1]
    for rep in ((2, 3, 5) if len(live) <= 1024 else (2,)):
        for s in seeds:
            rnd[(rep, s)] = cap(acc, rep, seed=1000 * rep + s + len(live))
    vals = [("deterministic", det)] + [("random-start repeats=%d seed=%d" % k, v) for k, v in rnd.items()]
    for name, v in vals:
        if not isinstance(v, float):
            bad.append(("raises", "a float", {"mode": name, "outcome": impl.jsonable(v)}, {}))
            continue
        if v > 2.0 or math.isnan(v):
            bad.append(("exceeds-two-bits", "<= 2.0", {"mode": name, "value": v}, {}))
        if rec["arcless"] and v != 0.0:
            bad.append(("arc-less-graph-not-zero", 0.0, {"mode": name, "value": v}, {}))
    if rec["reg"] >= 1 and isinstance(det, float):
        want = math.log2(rec["reg"])
        if abs(det - want) > 1e-13:
            bad.append(("regular-graph-not-exact", want, {"value": det, "d": rec["reg"]}, {}))
    if rec["res"] == "certified":
        lo, hi = log2q(rec["lo"]) - TOL, log2q(rec["hi"]) + TOL
        for k, v in rnd.items():
            if isinstance(v, float) and not (lo <= v <= hi):
                bad.append(("random-start-accuracy", [lo + TOL, hi - TOL], {"repeats": k[0], "seed": k[1], "value": v}, {}))
        if isinstance(det, float) and not (lo <= det <= hi):
            prem = rec["prem"]
            is_prem = prem[2] > 0 and prem[1] > 0 and prem[0] > 0 and abs(det - math.log2(prem[0] / prem[1])) < 1e-9
            bad.append(("deterministic-accuracy", [lo + TOL, hi - TOL], {"value": det, "stopped_at_estimate": prem},
                        {"premature_exact_repeat": bool(is_prem)}))
    # conformance (never a verdict): the per-iteration record of the deterministic mode against TLC's exact estimates max W_n / max W_n-1
    if rec.get("est") and not rec["arcless"]:
        rp = impl.call(dsw.approximate_capacity, acc, repeats=1, process=True, _budget=600, _alarm=120)
        if rp["out"] == "ok":
            try:
                proc = [float(x) for x in rp["value"][1]]
                for i, (p_, e_) in enumerate(zip(proc, rec["est"])):
                    want = math.log2(e_[0] / e_[1]) if e_[0] > 0 and e_[1] > 0 else 0.0
                    if abs(p_ - want) > 1e-9:
                        bad.append(("conformance:iteration-record", {"iteration": i + 1, "exact": e_}, p_, {}))
                        break
            except Exception:  # noqa
                bad.append(("conformance:iteration-record", "a list of floats", "unreadable", {}))
    if not numpy.array_equal(acc, keep):
        bad.append(("argument-modified", "unchanged", "changed", {}))
    width = (log2q(rec["hi"]) - log2q(rec["lo"])) if rec["res"] == "certified" and rec["lo"][0] > 0 else None
    return bad, width


def near_complete(rng, k, drop):
    live = [[0, 1, 2, 3] for _ in range(4 ** k)]
    for _ in range(drop):
        v = rng.randrange(4 ** k)
        if len(live[v]) > 1:
            live[v].remove(rng.choice(live[v]))
    return live


def propose(rng, n, n4):
    graphs = []
    for i in range(n4):            # order 4: near-complete graphs and generated graphs (the certificate costs ~15 s each in TLC)
        graphs.append(near_complete(rng, 4, rng.choice([1, 2, 5])) if i % 2 == 0 else (cf.generated_live(rng, 4, t=2) or near_complete(rng, 4, 3)))
    for i in range(n):
        k = 2 if i % 4 else 3
        if i % 3 == 0:
            live = cf.random_live(rng, k, rng.choice([0.5, 0.75, 0.9]))
        else:
            live = cf.generated_live(rng, k) or cf.random_live(rng, k, 0.9, min_out=1)
        if i % 7 == 0:      # a regular core with arcs into dead ends
            d = rng.choice([1, 2, 3])
            core = [v for v in range(4 ** k)]
            live = [sorted(rng.sample(range(4), d)) for _ in core]
        graphs.append(live)
    return graphs


def run(ctx):
    ctx.tlc("MC_Capacity", "MC_Capacity_witness.cfg", expect_violation=True, workers=8)
    ctx.tlc("MC_Capacity", "MC_Capacity_live.cfg", workers=8, timeout=900)     # the estimation machine always reaches its final phase
    r = ctx.tlc("MC_Capacity", "MC_Capacity_%s.cfg" % ctx.tier, workers=16, timeout=3400, heap="12g")
    recs = r.records
    if len(recs) != (4096 if ctx.quick else 65536):
        raise Machinery("unexpected number of order-1 records: %d" % len(recs))
    rng = random.Random(ctx.seed * 179424673 % (2 ** 31) + 17)
    graphs = propose(rng, 40 if ctx.quick else 300, 3 if ctx.quick else 16)
    path = os.path.join(ctx.workdir, "c17_graphs.json")
    with open(path, "w") as f:
        json.dump({"graphs": graphs}, f)
    r2 = ctx.tlc("MC_Capacity", "MC_Capacity_file.cfg", env={"TRACE_FILE": path}, workers=16, timeout=3400, heap="12g")
    if len(r2.records) != len(graphs):
        raise Machinery("expected %d certificates, got %d" % (len(graphs), len(r2.records)))
    r3 = ctx.tlc("MC_Capacity", "MC_Capacity_uniform.cfg", workers=16, timeout=1800, heap="12g")
    if len(r3.records) != 75:
        raise Machinery("expected 75 uniform-pattern records, got %d" % len(r3.records))
    # the uniform-pattern family is |P|-regular at every order (UniformIsRegular, TLC-checked for orders 1..5); the real function is
    # held to exactly log2 |P| and to <= 2 bits up to order 8 (65 536 vertices)
    big = []
    for k in (6, 7, 8):
        for P in ([0, 1, 2, 3], [0, 2, 3], [1, 3], [2]):
            big.append({"gid": 100 * k, "live": "uniform", "uniform": [k, P], "res": "not-classified", "reg": len(P), "m": 0, "csize": 0,
                        "lo": [0, 1], "hi": [4, 1], "prem": [0, 0, 0], "nest": 0, "last": [len(P), 1], "arcless": False})
    quick_big = [b for b in big if b["uniform"] in ([8, [0, 1, 2, 3]], [8, [0, 2, 3]], [7, [1, 3]], [6, [0, 1, 2, 3]])]
    allrecs = recs + r2.records + r3.records + (big if not ctx.quick else quick_big)
    ctx.exhaustive = True
    res = impl.pmap(_judge_one, allrecs, chunk=64)
    widths, cert = [], 0
    for rec, (bad, width) in zip(allrecs, res):
        ctx.judged()
        if rec["live"] == "uniform" or sum(len(x) for x in rec["live"]) >= 2:
            ctx.mark(json.dumps(rec.get("uniform") or rec["live"]))
        if rec["res"] == "certified":
            cert += 1
            if width is not None:
                widths.append(width)
        for clause, exp, obs, feats in bad:
            if clause.startswith("conformance:"):
                ctx.divergence(clause, {"live": rec["live"] if isinstance(rec["live"], list) and len(rec["live"]) <= 16 else "larger", "expected": exp, "observed": obs})
                continue
            ctx.violation(clause, {"live": rec.get("uniform") or (rec["live"] if len(rec["live"]) <= 16 else "order %d (seeded)" % (len(bin(len(rec["live"]))) // 2 - 1)), "class": rec["res"], "regular": rec["reg"],
                                   "lo": rec["lo"], "hi": rec["hi"]}, exp, impl.jsonable(obs), features=feats)
    widths.sort()
    ctx.notes["certified_graphs"] = cert
    ctx.notes["interval_width_bits"] = {"median": widths[len(widths) // 2] if widths else None, "max": widths[-1] if widths else None,
                                        "below_1e-3": sum(1 for w in widths if w < 1e-3)}
    ctx.sample({"flow": "A", "record": [x for x in r2.records if x["res"] == "certified"][0] if any(x["res"] == "certified" for x in r2.records) else r2.records[0]})
    ctx.sample({"flow": "A", "record": [x for x in recs if x["res"] == "certified" and x["csize"] >= 3][5]})
    ctx.assumptions += ["accuracy is decided only against the certified Collatz-Wielandt interval after 13 exact steps (sound at any width, "
                        "sharp when the interval is tight); graphs of order >= 5 are out of reach of the 32-bit integer model (order 4 is covered by a few graphs per run)",
                        "the spectral-gap premise is established by a sufficient Birkhoff-contraction certificate; graphs it cannot certify are not judged for accuracy"]
    return {"scope": {"order1_graphs": len(recs), "proposed_graphs": len(graphs), "order4_graphs": 3 if ctx.quick else 16, "uniform_family": "orders 1..8"}}


def replay(ctx, v):
    c = v["case"]
    if isinstance(c.get("live"), list):
        acc = impl.accessor(c["live"])
        print("replay: deterministic ->", cap(acc, 1), " random-start(3) ->", cap(acc, 3, seed=1))
    print(json.dumps(v, indent=1)[:1500])
    return 1
