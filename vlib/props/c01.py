"""C01 - encode then decode returns the original message."""
import json
import random

from vlib import codingflow as cf
from vlib import impl
from vlib.core import Machinery

RULE = ("Flow A: TLC runs encode -> check -> decode step machines on every order-1 graph built from the pattern family x every "
        "start satisfying the property's precondition x tables x every message up to MaxBits x both modes x check lengths, "
        "checking RoundTrip/EncTotal/WalkInv/DocHolds on the spec; each exported behaviour is replayed: decode(encode(m)) must "
        "return m with no exception. Flow B: seeded graphs of orders 2..5 (generated and arbitrary arc subsets), messages to "
        "4096 bits, random tables, check lengths to 64, lists and numpy arrays; the precondition is decided by TLC and the "
        "recorded round trip judged by Trace_Coding. Distinct non-trivial = distinct judged cases with a non-empty message.")

MINE = {"round-trip", "encode-raises"}
SLOT_ENV = "VERIF_SLOT"


def flow_a(ctx, mine, cfgs):
    recs = []
    for cfg in cfgs:
        r = ctx.tlc("MC_Coding", cfg, workers=16, timeout=3400, heap="14g", env={SLOT_ENV: str(ctx.seed % 1000)})
        recs += r.records
    if len(recs) < 50000:
        raise Machinery("too few exported behaviours: %d" % len(recs))
    res = impl.pmap(cf.replay_enc, recs)
    for rec, bad in zip(recs, res):
        ctx.judged()
        if rec["msg"]:
            ctx.mark("A" + json.dumps([rec["live"], rec["tbl"][0], rec["start"], rec["msg"], rec["mode"], rec["vtlen"]]))
        for clause, exp, obs in bad:
            if clause in mine:
                ctx.violation(clause, {k: rec[k] for k in ("live", "tbl", "start", "msg", "mode", "vtlen")}, exp, impl.jsonable(obs))
            elif clause.startswith("conformance:"):
                ctx.divergence(clause, {k: rec[k] for k in ("live", "start", "msg", "mode")})
            else:
                ctx.divergence("other-property clause %s failed" % clause)
    ctx.sample({"flow": "A", "record": [x for x in recs if len(x["msg"]) == 3 and x["mode"] == "fast"][5]})
    return len(recs)


def flow_b(ctx, mine, n, maxbits, salt):
    rng = random.Random(ctx.seed * 86028121 + salt)
    graphs, tables, cases = cf.record_enc_cases(rng, n, maxbits)
    got = cf.validate(ctx, graphs, tables, cases)
    for i, c in enumerate(cases, 1):
        v = got[i]
        if v == ["precondition-false"]:
            ctx.vacuous += 1
            continue
        ctx.judged()
        if c["msg"]:
            ctx.mark("B" + json.dumps([graphs[c["g"] - 1] if len(graphs[c["g"] - 1]) <= 64 else c["g"], c["start"], c["msg"][:64], len(c["msg"]),
                                       c["mode"], c["vtlen"], c["tbl"]]))
        for cl in v:
            if cl.startswith("conformance:"):
                ctx.divergence(cl, {"order": len(graphs[c["g"] - 1]), "start": c["start"], "bits": len(c["msg"]), "mode": c["mode"]})
            if cl in mine:
                small = {k: c[k] for k in ("start", "mode", "vtlen", "enc_out", "dec_out", "ticks")}
                small.update({"order": len(graphs[c["g"] - 1]), "bits": len(c["msg"]), "msg": c["msg"][:80],
                              "live": graphs[c["g"] - 1] if len(graphs[c["g"] - 1]) <= 64 else "order>3 (seeded)",
                              "table": "random" if c["tbl"] else "none"})
                ctx.violation(cl, small, "ok", cl)
    big = max(cases, key=lambda c: len(c["msg"]))
    ctx.sample({"flow": "B", "case": {"order": len(graphs[big["g"] - 1]), "bits": len(big["msg"]), "mode": big["mode"],
                                      "vtlen": big["vtlen"], "strand_len": len(big["strand"]), "enc_out": big["enc_out"]},
                "verdict": got[cases.index(big) + 1]})
    return len(cases)


def run(ctx):
    ctx.tlc("MC_Coding", "MC_Coding_witness.cfg", expect_violation=True, workers=8, heap="8g")
    cfgs = ["MC_Coding_quick.cfg"] if ctx.quick else ["MC_Coding_quick.cfg", "MC_Coding_thorough.cfg", "MC_Coding_thorough2.cfg"]
    na = flow_a(ctx, MINE, cfgs)
    ctx.exhaustive = ctx.quick
    nb = flow_b(ctx, MINE, 40 if ctx.quick else 300, 512 if ctx.quick else 4096, 1)
    if not ctx.quick:
        from vlib import suiteflow
        suiteflow.judge(ctx, mine_coding=MINE)           # Flow S: the suite's own encode -> decode pairs
    ctx.assumptions += ["fast mode only on graphs without out-degree 3 (decided by TLC)",
                        "thorough exports a seed-chosen 1/16 (1/4) stratum of the large scopes; the invariants are checked on all of it"]
    return {"scope": {"flowA_behaviours": na, "flowB_cases": nb}}


def replay(ctx, v):
    c = v["case"]
    if "live" in c and isinstance(c["live"], list) and "tbl" in c:
        acc = impl.accessor(c["live"])
        e = cf.run_encode(acc, c["start"], c["msg"], c["mode"], c["vtlen"], c["tbl"])
        print("replay: encode ->", e["enc_out"], e["s"], e["c"])
        if e["enc_out"] == "ok":
            print("        decode ->", cf.run_decode(acc, c["start"], e["s"], len(c["msg"]), c["mode"], e["c"], c["tbl"]))
    print(json.dumps(v, indent=1)[:1500])
    return 1
