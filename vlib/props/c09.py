"""C09 - repair leaves clean strands alone and only returns check-consistent candidates."""
from vlib import repairflow as rf
from vlib.props import c08

RULE = ("Flow A: the repair machine on every A/C/G/T string of length k..5 (6) x generated order-1 and order-2 graphs x starts x "
        "check in {none, right, wrong} x indel on/off x heap in {unrestricted, 1, 3}, with CleanLeftAlone, SortedUnique and "
        "CheckConsistent as invariants, plus the edited-walk scope of C08; every exported case is replayed into repair_dna (equal "
        "result inherits TLC's verdict, a differing one is judged on its own by Trace_Repair from the recorded output). Flow B: "
        "seeded clean, corrupted and random strands of 2..200 nt on generated graphs of orders 2..4. "
        "Distinct non-trivial = distinct (graph, start, strand, check, indel, heap).")

MINE = rf.C09


def run(ctx):
    ctx.tlc("MC_Repair", "MC_Repair_witness2.cfg", expect_violation=True, workers=16, heap="8g")
    cfgs = ["MC_Repair_strings_quick.cfg", "MC_Repair_edits_quick2.cfg"] if ctx.quick else \
        ["MC_Repair_strings_thorough.cfg", "MC_Repair_edits_thorough2.cfg"]
    na = rf.flow_a(ctx, cfgs, MINE, "A")
    ctx.exhaustive = True
    nb = c08.flow_b(ctx, MINE, 40 if ctx.quick else 300, 9, kinds=("clean", "anywhere", "edited"))
    if not ctx.quick:
        from vlib import suiteflow
        suiteflow.judge(ctx, mine_repair=MINE)           # Flow S: the repository's own tests as trace sources
    ctx.sample({"flow": "A", "note": "cases enumerated by MC_Repair; see tlc_runs", "cases": na})
    ctx.assumptions += ["candidate lists are compared in Python string order (A<C<G<T, prefix first)"]
    return {"scope": {"flowA_cases": na, "flowB_cases": nb}}


replay = c08.replay
