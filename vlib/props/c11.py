"""C11 - vertex discovery and the valid graph mirror the filter exactly."""
import json
import os
import random

import numpy

import dsw
from vlib import impl
from vlib.core import Machinery
from vlib.props import c12
from vlib.props.c03 import outcome, live_of_set

RULE = ("Flow A: TLC enumerates order-2 vertex sets as arbitrary user predicates (a seed-chosen 1/8 stratum quick, all 65 536 "
        "thorough) and built-in filter configurations for k = 1..3 (4), checks ValidDef / FindDef on the spec and exports the marked "
        "set and the valid graph; the harness runs find_vertices with user-defined filters written against the documented "
        "valid(self, dna_string) interface (and with LocalBioFilter), then connect_valid_graph with bool and int masks. Flow B: "
        "seeded filters and masks of orders 3..6 judged by Trace_Generate. Distinct non-trivial = distinct non-empty marked sets "
        "per source.")


class DocumentedFilter(dsw.DefaultBioFilter):
    """A user-defined filter that follows the documented interface valid(self, dna_string)."""

    def __init__(self, accepted):
        super().__init__(screen_name="user-defined")
        self.accepted = accepted

    def valid(self, dna_string):
        return dna_string in self.accepted


class LocalStyleFilter(dsw.DefaultBioFilter):
    """A user-defined filter that copies LocalBioFilter's signature."""

    def __init__(self, accepted):
        super().__init__(screen_name="user-defined")
        self.accepted = accepted

    def valid(self, dna_sequence, only_last=True):
        return dna_sequence in self.accepted


class NumpyFilter(dsw.DefaultBioFilter):
    """A user-defined filter that computes its verdict with numpy: valid() hands back numpy.bool_, not the Python singletons."""

    def __init__(self, accepted):
        super().__init__(screen_name="user-defined")
        self.accepted = numpy.array(sorted(accepted) or ["-"])

    def valid(self, dna_string):
        return (self.accepted == dna_string).any()


class LocalSubclassFilter(dsw.LocalBioFilter):
    """A user-defined filter derived from the built-in one (isinstance(..., LocalBioFilter) holds) with a rule of its own."""

    def __init__(self, accepted):
        super().__init__(observed_length=len(next(iter(accepted), "A")))
        self.accepted = accepted

    def valid(self, dna_sequence, only_last=True):
        return dna_sequence in self.accepted


def kmers_of(indices, k):
    return set("".join(impl.NT[(v // 4 ** (k - 1 - i)) % 4] for i in range(k)) for v in indices)   # transport of TLC's set


def run_find(k, flt):
    r = impl.call(dsw.find_vertices, k, flt)
    res = {"out": outcome(r), "verts": []}
    if r["out"] == "ok":
        a = numpy.asarray(r["value"])
        res["verts"] = sorted(int(i) for i in numpy.nonzero(a)[0]) if len(a) == 4 ** k else ["bad-shape"]
    return res


def run_valid(k, marked, as_int):
    n = 4 ** k
    m = numpy.zeros(n, dtype=int if as_int else bool)
    for v in marked:
        m[v] = 1 + (v % 3) if as_int == 2 else 1          # as_int == 2: a union of 0/1 masks taken by addition (any non-zero cell is marked)
    keep = m.copy()
    r = impl.call(dsw.connect_valid_graph, k, m)
    res = {"out": outcome(r), "live": [], "unchanged": bool(numpy.array_equal(m, keep))}
    if r["out"] == "ok":
        res["live"] = impl.live_of(r["value"])
    return res


def _replay_one(rec):
    k, marked = rec["k"], rec["marked"]
    bad = []
    if rec["src"] == "pred":
        filters = [("documented-interface", DocumentedFilter(kmers_of(marked, k))), ("local-style", LocalStyleFilter(kmers_of(marked, k))),
                   ("numpy-verdicts", NumpyFilter(kmers_of(marked, k))), ("derived-from-LocalBioFilter", LocalSubclassFilter(kmers_of(marked, k)))]
    else:
        c = rec["cfg"]
        if not c12.float_guard(c["k"], c["gc"]):
            return "skip"
        try:
            filters = [("LocalBioFilter", c12.make_filter(c["k"], c["run"], c["gc"], c["motifs"]))]
        except Exception:  # noqa  (a stricter constructor: no filter to discover vertices with)
            return "skip"
    for name, f in filters:
        g = run_find(k, f)
        if not marked:
            if g["out"] == "ok":
                bad.append(("mask-returned-for-empty-set", "ValueError", g["verts"]))
            elif g["out"] != "ValueError":
                bad.append(("wrong-exception-type", "ValueError", {"filter": name, "outcome": g["out"]}))
        elif g["out"] != "ok":
            bad.append(("error-on-non-empty-set", marked, {"filter": name, "outcome": g["out"]}))
        elif g["verts"] != marked:
            bad.append(("mask-differs-from-filter", marked, {"filter": name, "verts": g["verts"]}))
    for as_int in (False, True, 2):
        g = run_valid(k, marked, as_int)
        if not marked:
            if g["out"] == "ok":
                bad.append(("graph-returned-for-empty-mask", "ValueError", "graph"))
            elif g["out"] != "ValueError":
                bad.append(("wrong-exception-type", "ValueError", g["out"]))
        elif g["out"] != "ok":
            bad.append(("error-on-non-empty-mask", marked, g["out"]))
        elif g["live"] != rec["live"]:
            bad.append(("valid-graph-differs", rec["live"], g["live"]))
        if not g["unchanged"]:
            bad.append(("input-mask-modified", "unchanged", "changed"))
    return bad


def record(rng, n):
    cases = []
    # very selective user filters at larger orders: one to three accepted k-mers among 4^8 / 4^9
    for k, cnt in ((8, 1), (8, 3), (9, 2)):
        marked = sorted(rng.sample(range(4 ** k), cnt))
        g = run_find(k, DocumentedFilter(kmers_of(marked, k)))
        cases.append({"kind": "find", "src": "pred", "cfg": {"k": k, "run": 0, "gc": [], "motifs": []}, "pred": marked, "k": k,
                      "out": g["out"], "verts": g["verts"]})
    # every user predicate at observed length 1 (the k-mer handed to the filter is a single nucleotide)
    for bits in range(16):
        marked = [v for v in range(4) if bits >> v & 1]
        for flt in (DocumentedFilter(kmers_of(marked, 1)), LocalStyleFilter(kmers_of(marked, 1))):
            g = run_find(1, flt)
            cases.append({"kind": "find", "src": "pred", "cfg": {"k": 1, "run": 0, "gc": [], "motifs": []}, "pred": marked, "k": 1,
                          "out": g["out"], "verts": g["verts"]})
    # history: the all-marked mask, the caller edits the returned graph in place, the all-marked mask again
    for k in (1, 2, 3):
        full = list(range(4 ** k))
        first = impl.call(dsw.connect_valid_graph, k, numpy.ones(4 ** k, dtype=bool))
        if first["out"] == "ok":
            try:
                first["value"][0, :] = -1
                first["value"][-1, 0] = -1
            except Exception:  # noqa
                pass
        v = run_valid(k, full, as_int=False)
        cases.append({"kind": "valid", "k": k, "mask": full, "out": v["out"], "live": v["live"]})
    for i in range(n):
        k = rng.choice([3, 4, 4, 5, 6])
        N = 4 ** k
        if i % 2 == 0:
            run = rng.choice([0, 1, 2, 3, k])
            den = rng.choice([10, 4, 5, 2])
            lo = rng.randint(0, den // 2)
            hi = rng.randint(den // 2, den)
            gc = [] if rng.random() < 0.3 else [lo, hi, den]
            ms = [m for m in rng.sample(c12.LIT_MOTIFS, rng.choice([0, 1, 2])) if len(m) <= k]
            motifs = [impl.undna(m) for m in ms]
            if not c12.float_guard(k, gc):
                continue
            try:
                f = c12.make_filter(k, run, gc, motifs)
            except Exception:  # noqa
                continue
            g = run_find(k, f)
            cases.append({"kind": "find", "src": "cfg", "cfg": {"k": k, "run": run, "gc": gc, "motifs": motifs}, "pred": [], "k": k,
                          "out": g["out"], "verts": g["verts"]})
            marked = g["verts"]
        else:
            dens = rng.choice([0.0, 0.02, 0.3, 0.8])
            marked = sorted(v for v in range(N) if rng.random() < dens)
            f = DocumentedFilter(kmers_of(marked, k)) if i % 4 == 1 else LocalStyleFilter(kmers_of(marked, k))
            g = run_find(k, f)
            cases.append({"kind": "find", "src": "pred", "cfg": {"k": k, "run": 0, "gc": [], "motifs": []}, "pred": marked, "k": k,
                          "out": g["out"], "verts": g["verts"]})
        if k <= 5:
            v = run_valid(k, marked, as_int=(i % 3 == 0))
            cases.append({"kind": "valid", "k": k, "mask": marked, "out": v["out"], "live": v["live"]})
    return cases


def run(ctx):
    ctx.tlc("MC_Find", "MC_Find_witness.cfg", expect_violation=True, workers=8)
    r = ctx.tlc("MC_Find", "MC_Find_%s.cfg" % ctx.tier, workers=16, timeout=3400, heap="12g", env={"VERIF_SLOT": str(ctx.seed % 997)})
    recs = r.records
    if len(recs) < 5000:
        raise Machinery("too few exported records: %d" % len(recs))
    ctx.exhaustive = not ctx.quick
    res = impl.pmap(_replay_one, recs, chunk=128)
    for rec, bad in zip(recs, res):
        if bad == "skip":
            ctx.vacuous += 1
            continue
        ctx.judged()
        if rec["marked"]:
            ctx.mark("%s:%d:%s" % (rec["src"], rec["k"], ",".join(map(str, rec["marked"]))))
        for clause, exp, obs in bad:
            case = {"src": rec["src"], "k": rec["k"], "marked": rec["marked"]}
            if rec["src"] == "cfg":
                case["cfg"] = rec["cfg"]
            ctx.violation(clause, case, exp, impl.jsonable(obs))
    ctx.sample({"flow": "A", "record": [x for x in recs if x["src"] == "cfg" and x["k"] == 2 and 3 < len(x["marked"]) < 12][3]})
    rng = random.Random(ctx.seed * 472882027 % (2 ** 31) + 11)
    cases = record(rng, 40 if ctx.quick else 300)
    path = os.path.join(ctx.workdir, "c11_trace.json")
    with open(path, "w") as f:
        json.dump({"cases": cases}, f)
    r = ctx.tlc("Trace_Generate", "Trace.cfg", env={"TRACE_FILE": path}, workers=16, timeout=3400, heap="12g")
    got = {x["cid"]: x["verdict"] for x in r.records if "verdict" in x}
    if len(got) != len(cases):
        raise Machinery("trace validation returned %d verdicts for %d cases" % (len(got), len(cases)))
    for i, c in enumerate(cases, 1):
        ctx.judged()
        ctx.mark("B%d:%s" % (i, c["kind"]))
        if got[i] != "ok":
            small = {"kind": c["kind"], "k": c["k"], "out": c["out"], "cfg": c.get("cfg"), "marked": len(c.get("verts", c.get("mask", [])))}
            ctx.violation(got[i].split(":", 1)[1], small, "ok", got[i])
    ctx.sample({"flow": "B", "case": {"kind": cases[0]["kind"], "cfg": cases[0].get("cfg"), "marked": len(cases[0]["verts"])}, "verdict": got[1]})
    ctx.assumptions += ["user-defined filters are deterministic functions of the k-mer"]
    return {"scope": {"flowA_records": len(recs), "flowB_cases": len(cases)}}


def replay(ctx, v):
    c = v["case"]
    k = c["k"]
    if c.get("src") == "pred":
        for f in (DocumentedFilter(kmers_of(c["marked"], k)), LocalStyleFilter(kmers_of(c["marked"], k))):
            print("replay: find_vertices with", type(f).__name__, "->", run_find(k, f))
    elif c.get("cfg"):
        cc = c["cfg"]
        print("replay: find_vertices ->", run_find(k, c12.make_filter(cc["k"], cc["run"], cc["gc"], cc["motifs"])))
    if isinstance(c.get("marked"), list):
        print("        connect_valid_graph ->", run_valid(k, c["marked"], False))
    print("expected:", json.dumps(v["expected"])[:600])
    return 1
