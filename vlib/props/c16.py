"""C16 - bit, number and DNA conversions are exact inverses at any length."""
import json
import os
import random

import numpy

import dsw
from vlib import impl
from vlib.core import Machinery
from vlib.props.c15 import s10

RULE = ("Flow A: TLC enumerates every bit sequence up to MaxLen (10 quick / 14 thorough) and every DNA string up to 6 / 8, "
        "checks PathsAgree, RoundTrip, WiderPads on the digit-machine specification and exports number strings and renderings, "
        "replayed into bit_to_number / number_to_bit / dna_to_number / number_to_dna with Python lists and numpy arrays, both "
        "code paths. Flow B: seeded sequences up to 4096 bits / 2048 nt recorded from the code, re-computed by the machines in "
        "Trace_Bignum. Distinct non-trivial = distinct (base, sequence) with length >= 2.")


def int_digits(n):
    """Decimal digits of a Python int without one big int -> str conversion (the interpreter limits those to 4300 digits, and the
    limit is deliberately left in place because it is part of the environment the library runs in)."""
    n = int(n)
    if n < 0:
        return [-1]
    out = []
    while n >= 10 ** 18:
        n, r = divmod(n, 10 ** 18)
        out.append("%018d" % r)
    out.append(str(n))
    return [int(c) for c in "".join(reversed(out))]


def digits_int(s):
    """Python int of a decimal string, built in 18-digit pieces (same reason)."""
    n = 0
    for i in range(0, len(s), 18):
        piece = s[i:i + 18]
        n = n * 10 ** len(piece) + int(piece)
    return n


def _to_num(base, seq, flag, container):
    if base == 2:
        arg = list(seq) if container == "list" else numpy.array(seq, dtype=int)
        return impl.call(dsw.bit_to_number, arg, is_string=flag, _alarm=20 + len(seq) // 10)
    return impl.call(dsw.dna_to_number, impl.dna(seq), is_string=flag, _alarm=20 + len(seq) // 5)


def _from_num(base, num, w):
    if base == 2:
        r = impl.call(dsw.number_to_bit, num, w, _alarm=20 + w // 10)
        if r["out"] == "ok" and isinstance(r["value"], list):
            got = [int(x) for x in r["value"]]
            r["value"][:] = [1 - x for x in got] + [7]        # the caller owns the rendering: overwrite it in place ...
            r2 = impl.call(dsw.number_to_bit, num, w, _alarm=20 + w // 10)         # ... and render the same number again
            again = [int(x) for x in r2["value"]] if r2["out"] == "ok" else r2
            return got if again == got else {"first": got, "again_after_caller_modified_the_first_result": again}
        return [int(x) for x in r["value"]] if r["out"] == "ok" else r
    r = impl.call(dsw.number_to_dna, num, w, _alarm=20 + w // 5)
    return impl.undna(r["value"]) if r["out"] == "ok" else r


def _replay_one(rec):
    base, seq, want = rec["base"], rec["seq"], s10(rec["str"])
    bad = []
    for cont in (("list", "numpy") if base == 2 else ("str",)):
        r = _to_num(base, seq, True, cont)
        if r["out"] != "ok" or r["value"] != want:
            bad.append(("to-number-string-path", want, impl.jsonable(r.get("value", r))))
        r = _to_num(base, seq, False, cont)
        if r["out"] != "ok" or str(int(r["value"])) != want:
            bad.append(("to-number-int-path", want, str(impl.jsonable(r.get("value", r)))[:80]))
    for num in (want, int(want)):
        path = "string" if isinstance(num, str) else "int"
        g = _from_num(base, num, len(seq))
        if g != rec["r0"]:
            bad.append(("from-number-%s-path" % path, rec["r0"], impl.jsonable(g)))
        g = _from_num(base, num, len(seq) + 2)
        if g != rec["r2"]:
            bad.append(("left-padding", rec["r2"], impl.jsonable(g)))
    return bad


def record(rng, n, maxbits, maxnt, force_max=False):
    cases = []
    plan = []
    if not force_max:
        # values next to a power of the base, at the widths where machine words and floating-point logarithms give out
        for L in (23, 24, 25, 26, 27, 31, 32, 33, 52, 53, 54, 63, 64, 65):
            for base in (2, 4):
                plan += [(base, [base - 1] * L), (base, [1] + [0] * (L - 1)), (base, [base - 1] * (L - 1) + [base - 2])]
    for i in range(n + len(plan)):
        if i >= n:
            cases.append(convert(plan[i - n][0], plan[i - n][1], len(plan[i - n][1]) + (i % 2), "numpy" if i % 3 == 0 else "list"))
            continue
        base = 2 if i % 2 == 0 else 4
        L = rng.choice([0, 1, 2, 31, 32, 33, 63, 64, 65, 100, 257, rng.randint(1, maxbits if base == 2 else maxnt),
                        maxbits if base == 2 else maxnt])
        L = min(L, maxbits if base == 2 else maxnt)
        kind = i % 5
        if force_max:
            L, kind = (maxbits if base == 2 else maxnt), 3
        if kind == 0:
            seq = [0] * L
        elif kind == 1:
            seq = [base - 1] * L
        elif kind == 2:
            seq = [0] * (L // 2) + [rng.randrange(base) for _ in range(L - L // 2)]
        else:
            seq = [rng.randrange(base) for _ in range(L)]
        w = L + rng.choice([0, 0, 0, 1, 5])
        cont = "numpy" if (base == 2 and i % 4 == 0) else "list"
        cases.append(convert(base, seq, w, cont))
    return cases


def convert(base, seq, w, cont):
    rs = _to_num(base, seq, True, cont)
    ri = _to_num(base, seq, False, cont)
    c = {"kind": "conv", "base": base, "seq": seq, "w": w, "container": cont}
    c["str"] = [int(x) for x in rs["value"]] if rs["out"] == "ok" else [-1]
    c["int"] = int_digits(ri["value"]) if ri["out"] == "ok" else [-1]
    num_s = rs["value"] if rs["out"] == "ok" else "0"
    b1 = _from_num(base, num_s, w)
    b2 = _from_num(base, digits_int(num_s), w)
    c["back_str"] = b1 if isinstance(b1, list) else [-1]
    c["back_int"] = b2 if isinstance(b2, list) else [-1]
    return c


def run(ctx):
    ctx.tlc("MC_Conv", "MC_Conv_witness_2.cfg", expect_violation=True, workers=4)
    recs = []
    for b in (2, 4):
        r = ctx.tlc("MC_Conv", "MC_Conv_%s_%d.cfg" % (ctx.tier, b), workers=16, timeout=3000)
        recs += r.records
    if len(recs) < 7000:
        raise Machinery("too few exported records: %d" % len(recs))
    ctx.exhaustive = True
    res = impl.pmap(_replay_one, recs)
    for rec, bad in zip(recs, res):
        ctx.judged()
        if len(rec["seq"]) >= 2:
            ctx.mark("A:%d:%s" % (rec["base"], s10(rec["seq"])))
        for clause, exp, obs in bad:
            ctx.violation(clause, {"kind": "conv", "base": rec["base"], "seq": rec["seq"]}, exp, obs)
    ctx.sample({"flow": "A", "record": recs[len(recs) // 2]})
    rng = random.Random(ctx.seed * 15485863 + 16)
    cases = record(rng, 60 if ctx.quick else 500, 4096 if not ctx.quick else 1024, 2048 if not ctx.quick else 512)
    # beyond 4300 decimal digits (about 14 300 bits / 7 150 nt): path agreement and round trip
    if not ctx.quick:         # several minutes of string arithmetic in the library itself: thorough tier only
        cases += record(rng, 2, 14500, 7300, force_max=True)
    path = os.path.join(ctx.workdir, "c16_trace.json")
    with open(path, "w") as f:
        json.dump({"cases": cases}, f)
    r = ctx.tlc("Trace_Bignum", "Trace.cfg", env={"TRACE_FILE": path}, workers=16, timeout=3000)
    got = {x["cid"]: x["verdict"] for x in r.records if "verdict" in x}
    if len(got) != len(cases):
        raise Machinery("trace validation returned %d verdicts for %d cases" % (len(got), len(cases)))
    for i, c in enumerate(cases, 1):
        ctx.judged()
        if len(c["seq"]) >= 2:
            ctx.mark("B:%d:%s" % (c["base"], s10(c["seq"])))
        if got[i] != "ok":
            ctx.violation(got[i].split(":", 1)[1], {"kind": "conv", "base": c["base"], "seq": c["seq"], "w": c["w"],
                                                   "container": c["container"]}, "machine result", got[i])
    ctx.sample({"flow": "B", "case": {"base": cases[3]["base"], "len": len(cases[3]["seq"]), "w": cases[3]["w"],
                                      "container": cases[3]["container"]}, "verdict": got[4]})
    ctx.assumptions += ["bit containers are Python lists and numpy integer arrays, the two the library itself uses"]
    return {"scope": {"bits": 10 if ctx.quick else 14, "nt": 6 if ctx.quick else 8, "flowB_cases": len(cases)}}


def replay(ctx, v):
    c = v["case"]
    rng = random.Random(0)
    seq, base = c["seq"], c["base"]
    cont = c.get("container", "list")
    rs, ri = _to_num(base, seq, True, cont), _to_num(base, seq, False, cont)
    print("replay: to-number string path ->", impl.jsonable(rs.get("value", rs)), " int path ->", impl.jsonable(ri.get("value", ri)))
    w = c.get("w", len(seq))
    print("        renderings at width %d:" % w, _from_num(base, rs.get("value", "0"), w))
    return 1
