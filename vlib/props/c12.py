"""C12 - the local filter implements its documented window predicate."""
import json
import os
import random
from fractions import Fraction

import dsw
from vlib import impl
from vlib.core import Machinery

RULE = ("Flow A: TLC enumerates every string up to MaxLen over {A,C,G,T,foreign} x a grid of configurations (k in 2..3(4), run "
        "limits, 8 GC ranges incl. lo>hi/0/1, 5 motif sets incl. palindrome and single letter), checks LastWindow, WindowConj, "
        "RevCompInv, SubstrOfValidWindow on the spec and exports both verdicts per (cfg, string); each is replayed into a real "
        "LocalBioFilter. Flow B: seeded configurations with windows 1, 4..12 (and 257, 300) and strings to 200 (600) recorded from the code and judged "
        "by Trace_Filter; constructor acceptance is compared with the specification as a conformance note (C02 owns the constructor clause). Distinct non-trivial = distinct (cfg, string) with len >= 2.")


def float_guard(k, gc):
    """Transport guard (not an oracle): the float products the code forms must order every integer count the same way the
    rational bounds do, otherwise the configuration is not representable and is skipped."""
    if not gc:
        return True
    lo, hi, den = gc
    flo, fhi = lo / den, hi / den
    for c in range(0, k + 1):
        if (c > fhi * k) != (Fraction(c) > Fraction(hi, den) * k):
            return False
        if (c < flo * k) != (Fraction(c) < Fraction(lo, den) * k):
            return False
        if (c > (1 - flo) * k) != (Fraction(c) > (1 - Fraction(lo, den)) * k):
            return False
    return True


def make_filter(k, run, gc, motifs, variant=0):
    kw = {"observed_length": k}
    if run > 0:
        kw["max_homopolymer_runs"] = run
    if gc:
        kw["gc_range"] = [gc[0] / gc[2], gc[1] / gc[2]]
    if motifs or variant % 2 == 1:
        kw["undesired_motifs"] = [impl.dna(m) for m in motifs]
    return dsw.LocalBioFilter(**kw)


_F = {}


def _filter_for(rec):
    key = (rec["k"], rec["run"], tuple(rec["gc"]), tuple(tuple(m) for m in rec["motifs"]))
    if key not in _F:
        if not float_guard(rec["k"], rec["gc"]):
            _F[key] = None
        else:
            try:
                _F[key] = make_filter(rec["k"], rec["run"], rec["gc"], rec["motifs"], variant=len(_F))
            except Exception:  # noqa  a constructor stricter than the specification's acceptance rule: nothing to ask, the record is skipped
                _F[key] = None
    return _F[key]


def _replay_one(rec):
    f = _filter_for(rec)
    if f is None:
        return "skip"
    s = impl.dna(rec["s"], salt=len(rec["s"]) + rec["k"])
    bad = []
    r = impl.call(f.valid, s, only_last=False)
    if r["out"] != "ok" or bool(r["value"]) != rec["whole"]:
        bad.append(("whole-sequence-verdict", rec["whole"], impl.jsonable(r.get("value", r))))
    r = impl.call(f.valid, s)
    if r["out"] != "ok" or bool(r["value"]) != rec["last"]:
        bad.append(("last-window-verdict", rec["last"], impl.jsonable(r.get("value", r))))
    if 4 in rec["s"] and not bad:
        # the same string with its foreign symbols written as a line feed, a blank, a lower-case letter, ... (one of impl.TRICKY)
        s2 = impl.dna_tricky(rec["s"], len(rec["s"]) + 3 * rec["k"] + sum(rec["s"]))
        r = impl.call(f.valid, s2, only_last=False)
        if r["out"] != "ok" or bool(r["value"]) != rec["whole"]:
            bad.append(("whole-sequence-verdict", rec["whole"], {"string": s2, "got": impl.jsonable(r.get("value", r))}))
        r = impl.call(f.valid, s2)
        if r["out"] != "ok" or bool(r["value"]) != rec["last"]:
            bad.append(("last-window-verdict", rec["last"], {"string": s2, "got": impl.jsonable(r.get("value", r))}))
    return bad


LIT_MOTIFS = ["GGC", "GAATTC", "GGATCC", "AAGCTT", "GCGC", "TATA", "ACA", "CCWGG".replace("W", "A"), "AT", "GC", "CGCG", "TTTT"]


def record(rng, ncfg, nstr):
    cfgs, cases = [], []
    for ci in range(ncfg):
        k = rng.choice([1, 4, 5, 6, 7, 8, 9, 10, 11, 12])
        if ci % 20 == 7:
            k = rng.choice([257, 300])           # windows longer than a byte counter
        run = rng.choice([0, 1, 2, 3, 4, k - 1, k, k + 1])
        den = rng.choice([10, 20, 4, 5, 2])
        lo = rng.randint(0, den)
        hi = rng.randint(0, den)
        if rng.random() < 0.8 and lo > hi:
            lo, hi = hi, lo
        gc = [] if rng.random() < 0.2 else [lo, hi, den]
        ms = rng.sample(LIT_MOTIFS, rng.choice([0, 1, 2, 3]))
        if k >= 100:             # a lower GC bound makes a GC-rich window with more than 255 G/C legal
            gc, ms, run = [den // 2, den, den], [], rng.choice([0, 3])
        motifs = [impl.undna(m) for m in ms]
        if not float_guard(k, gc):
            continue
        try:
            f = make_filter(k, run, gc, motifs, variant=ci)
            ctor = "ok"
        except Exception as e:  # noqa
            f, ctor = None, type(e).__name__
        except Exception as e:  # noqa
            f, ctor = None, type(e).__name__
        cfgs.append({"k": k, "run": run, "gc": gc, "motifs": motifs})
        idx = len(cfgs)
        if f is None:
            cases.append({"cfg": idx, "ctor": ctor, "s": [], "whole": False, "last": False})
            continue
        for j in range(nstr if k < 100 else 6):
            L = rng.choice([0, 1, k - 1, k, k + 1, 2 * k, 50, rng.randint(0, 200)])
            mode = j % 4
            if k >= 100:
                L, mode = rng.choice([k, k + 40, 2 * k]), 1
            if mode == 0:
                s = [rng.randrange(4) for _ in range(L)]
            elif mode == 1:      # GC-balanced alternation, likely valid (GC-heavy without runs for the very long windows)
                s = [rng.choice([0, 3]) if i % 2 else rng.choice([1, 2]) for i in range(L)]
                if k >= 100:
                    s = [(1 if i % 2 else 2) if i % 10 else 0 for i in range(L)]
            elif mode == 2:      # plant a motif or its reverse complement
                s = [rng.choice([0, 3]) if i % 2 else rng.choice([1, 2]) for i in range(L)]
                if ms and L >= 8:
                    m = impl.undna(rng.choice(ms))
                    if rng.random() < 0.5:
                        m = [3 - x for x in reversed(m)]
                    p = rng.randrange(0, max(1, L - len(m)))
                    s[p:p + len(m)] = m
                    s = s[:L]
            else:                # a foreign character somewhere
                s = [rng.randrange(4) for _ in range(L)]
                if L:
                    s[rng.randrange(L)] = 4
            st = impl.dna(s, salt=j) if j % 3 else impl.dna_tricky(s, j // 3)
            r1 = impl.call(f.valid, st, only_last=False)
            r2 = impl.call(f.valid, st)
            cases.append({"cfg": idx, "ctor": "ok", "s": s,
                          "whole": bool(r1["value"]) if r1["out"] == "ok" else "raised",
                          "last": bool(r2["value"]) if r2["out"] == "ok" else "raised"})
    return cfgs, cases


def run(ctx):
    ctx.tlc("MC_Filter", "MC_Filter_witness1.cfg", expect_violation=True, workers=8)
    ctx.tlc("MC_Filter", "MC_Filter_witness2.cfg", expect_violation=True, workers=8)
    r = ctx.tlc("MC_Filter", "MC_Filter_%s.cfg" % ctx.tier, workers=16, timeout=3400, heap="12g")
    recs = r.records
    if len(recs) < 100000:
        raise Machinery("too few exported records: %d" % len(recs))
    ctx.exhaustive = True
    res = impl.pmap(_replay_one, recs)
    skipped = 0
    for rec, bad in zip(recs, res):
        if bad == "skip":
            skipped += 1
            continue
        ctx.judged()
        if len(rec["s"]) >= 2:
            ctx.mark(json.dumps([rec["k"], rec["run"], rec["gc"], rec["motifs"], rec["s"]]))
        for clause, exp, obs in bad:
            ctx.violation(clause, {k: rec[k] for k in ("k", "run", "gc", "motifs", "s")}, exp, obs)
    ctx.notes["float_guard_skipped"] = skipped
    ctx.sample({"flow": "A", "record": [x for x in recs if x["whole"] and len(x["s"]) == 4][11]})
    rng = random.Random(ctx.seed * 49979687 + 12)
    cfgs, cases = record(rng, 60 if ctx.quick else 400, 40 if ctx.quick else 80)
    path = os.path.join(ctx.workdir, "c12_trace.json")
    with open(path, "w") as f:
        json.dump({"cfgs": cfgs, "cases": cases}, f)
    r = ctx.tlc("Trace_Filter", "Trace.cfg", env={"TRACE_FILE": path}, workers=16, timeout=3000)
    got = {x["cid"]: x["verdict"] for x in r.records if "verdict" in x}
    if len(got) != len(cases):
        raise Machinery("trace validation returned %d verdicts for %d cases" % (len(got), len(cases)))
    for i, c in enumerate(cases, 1):
        ctx.judged()
        if len(c["s"]) >= 2:
            ctx.mark("B" + json.dumps([cfgs[c["cfg"] - 1], c["s"]]))
        if got[i] != "ok":
            clause = got[i].split(":", 1)[1]
            if clause.startswith("constructor-"):
                # C12 speaks about verdicts, not about which configurations the constructor takes (C02 owns "accepted => window-decidable"):
                # a constructor that differs from the specification's acceptance rule is a conformance note here
                ctx.divergence("conformance:" + clause, {"cfg": cfgs[c["cfg"] - 1], "ctor": c["ctor"]})
                continue
            ctx.violation(clause, {"cfg": cfgs[c["cfg"] - 1], "s": c["s"], "whole": c["whole"], "last": c["last"],
                                   "ctor": c["ctor"]}, "ok", got[i])
    ctx.sample({"flow": "B", "cfg": cfgs[0], "case": cases[1], "verdict": got[2]})
    ctx.assumptions += ["GC bounds are rationals whose float products order every integer count as the rational does "
                        "(checked per configuration; others are skipped, not judged)"]
    return {"scope": {"MaxLen": 4 if ctx.quick else 5, "flowB_cfgs": len(cfgs), "flowB_cases": len(cases)}}


def replay(ctx, v):
    c = v["case"]
    cfg = c.get("cfg", c)
    f = make_filter(cfg["k"], cfg["run"], cfg["gc"], cfg["motifs"])
    s = impl.dna(c["s"])
    print("replay: cfg=%s s=%r -> whole=%s last=%s ; expected %s" % (cfg, s, f.valid(s, only_last=False), f.valid(s), v["expected"]))
    return 1
