"""C18 - shuffle tables are reproducible per-vertex permutations."""
import json
import os
import random

import numpy

import dsw
from vlib import codingflow as cf
from vlib import impl
from vlib.core import Machinery

RULE = ("Flow A: TLC checks for all 24 rows x 15 live-arc patterns that digit -> arc is a bijection with ArcToDigit as inverse, and "
        "exports 1056 first-step experiments (pattern at the start vertex, row in the table, message starting with the digit; both "
        "modes); the real encoder's first nucleotide must be the exported arc, the strand must equal the specification's and decode "
        "must invert it. Flow B: create_random_shuffles for k = 1..6 x seeds in seeded call histories interleaved with other users "
        "of the global random state; shape, same-seed-same-table and earlier-results-untouched are judged by Trace_Shuffle. "
        "Distinct non-trivial = distinct experiments / distinct (k, seed) table requests.")


def _replay_one(rec):
    L, row = rec["live"], rec["row"]
    live = [L, [0, 1, 2, 3], [0, 1, 2, 3], [0, 1, 2, 3]]
    tbl = [row, cf.IDENT, cf.IDENT, cf.IDENT]
    acc = impl.accessor(live)
    sh = numpy.array(tbl, dtype=int)          # always pass the table, also when every row is the identity
    if rec["dg"] % 2 == 0:                    # ... and for half of the experiments a table object made by the library itself (its own dtype)
        made = impl.call(dsw.create_random_shuffles, 1, random_seed=rec["dg"] + 3)
        if made["out"] == "ok":
            if getattr(made["value"], "shape", None) != (4, 4):
                return [("table-shape", [4, 4], list(getattr(made["value"], "shape", ())))]
            sh = made["value"]
            sh[:, :] = numpy.array(tbl)
    keep = sh.copy()
    kw = dict(is_faster=(rec["mode"] == "fast"), shuffles=sh)
    r = impl.call(dsw.encode, numpy.array(rec["msg"], dtype=int), acc, 0, **kw)
    bad = []
    if r["out"] != "ok":
        return [("encode-raises", "strand", cf.outcome(r))]
    s = impl.undna(r["value"])
    if not s or s[0] != rec["arc"]:
        bad.append(("digit-to-arc", impl.NT[rec["arc"]], r["value"]))
    elif s != rec["strand"]:
        bad.append(("strand-with-table", impl.dna(rec["strand"]), r["value"]))
    if s and s[0] not in L:
        bad.append(("dead-arc-selected", [impl.NT[a] for a in L], r["value"]))
    d = impl.call(dsw.decode, r["value"], len(rec["msg"]), acc, 0, **kw)
    if d["out"] != "ok" or [int(x) for x in d["value"]] != rec["msg"]:
        bad.append(("decode-does-not-invert", rec["msg"], impl.jsonable(d.get("value", d))))
    if not numpy.array_equal(sh, keep):
        bad.append(("table-modified", "unchanged", "changed"))
    return bad


def rekey_history(pair):
    """One accessor object and one table object used twice: between the two encodings the caller re-keys the row of the start vertex
    in place. The second strand must follow the new row (the expectations of both rows come from TLC's export)."""
    a, b = pair
    L = a["live"]
    acc = impl.accessor([L, [0, 1, 2, 3], [0, 1, 2, 3], [0, 1, 2, 3]])
    sh = numpy.array([a["row"], cf.IDENT, cf.IDENT, cf.IDENT], dtype=int)
    kw = dict(is_faster=(a["mode"] == "fast"), shuffles=sh)
    bad = []
    r1 = impl.call(dsw.encode, numpy.array(a["msg"], dtype=int), acc, 0, **kw)
    sh[0, :] = b["row"]
    r2 = impl.call(dsw.encode, numpy.array(b["msg"], dtype=int), acc, 0, **kw)
    for rec, r, when in ((a, r1, "before"), (b, r2, "after the row was re-keyed in place")):
        got = impl.undna(r["value"]) if r["out"] == "ok" else cf.outcome(r)
        if got != rec["strand"]:
            bad.append(("strand-with-table", impl.dna(rec["strand"]), {"when": when, "got": r.get("value", got), "row": rec["row"]}))
    return bad


def histories(rng, n):
    cases = []
    for h in range(n):
        tables, events, held = [], [], []
        pool = [(rng.randint(1, 6 if h % 3 == 0 else 4), rng.choice([0, 1, 7, 2021, 12345, 2 ** 31 - 1])) for _ in range(3)]
        for step in range(rng.randint(4, 9)):
            k, seed = rng.choice(pool)
            other = False
            if rng.random() < 0.4:
                other = True
                numpy.random.random(rng.randint(1, 50))
                if rng.random() < 0.3:
                    dsw.approximate_capacity(dsw.get_complete_accessor(1), repeats=2)
                if rng.random() < 0.3:
                    numpy.random.seed(rng.randint(0, 1000))
            r = impl.call(dsw.create_random_shuffles, k, random_seed=seed, verbose=(rng.random() < 0.4), _quiet=True)
            if r["out"] != "ok":
                cases.append({"kind": "table", "k": k, "seed": seed, "out": cf.outcome(r), "table": []})
                continue
            t = r["value"]
            intact = all(numpy.array_equal(a, snap) for a, snap in held)
            held.append((t, t.copy()))
            tables.append(impl.jsonable(t))
            if h % 2 == 1 and rng.random() < 0.6:
                # the caller customises its own table after the call (rows stay permutations); a later call with the same seed must
                # still return the documented table, and tables handed out earlier must not follow the edit
                for _ in range(rng.randint(1, 3)):
                    row = rng.randrange(len(t))
                    t[row] = t[row][::-1].copy()
                held[-1] = (t, t.copy())
            events.append({"k": k, "seed": seed, "tid": len(tables), "intact": bool(intact), "other": other})
        if held:
            events[-1]["intact"] = bool(events[-1]["intact"] and all(numpy.array_equal(a, snap) for a, snap in held))
        cases.append({"kind": "hist", "events": events, "tables": tables})
    return cases


def run(ctx):
    r = ctx.tlc("MC_Shuffle", "MC_Shuffle.cfg", workers=8, timeout=600)
    recs = r.records
    if len(recs) != 1056:
        raise Machinery("expected 1056 exported experiments, got %d" % len(recs))
    ctx.exhaustive = True
    res = impl.pmap(_replay_one, recs)
    for rec, bad in zip(recs, res):
        ctx.judged()
        ctx.mark("A" + json.dumps([rec["row"], rec["live"], rec["dg"], rec["mode"]]))
        for clause, exp, obs in bad:
            ctx.violation(clause, {k: rec[k] for k in ("row", "live", "dg", "mode", "msg")}, exp, impl.jsonable(obs))
    groups = {}
    for rec in recs:
        groups.setdefault((tuple(rec["live"]), rec["dg"], rec["mode"]), []).append(rec)
    pairs = []
    for g in groups.values():
        pairs += [(g[i], g[(i + 7) % len(g)]) for i in range(0, len(g), 3)]
    for pair, bad in zip(pairs, impl.pmap(rekey_history, pairs)):
        ctx.judged()
        ctx.mark("H" + json.dumps([pair[0]["row"], pair[1]["row"], pair[0]["live"], pair[0]["dg"], pair[0]["mode"]]))
        for clause, exp, obs in bad:
            ctx.violation(clause, {"live": pair[0]["live"], "dg": pair[0]["dg"], "mode": pair[0]["mode"], "row_before": pair[0]["row"],
                                   "row_after": pair[1]["row"]}, exp, impl.jsonable(obs))
    ctx.sample({"flow": "A", "record": recs[500]})
    rng = random.Random(ctx.seed * 6700417 % (2 ** 31) + 18)
    state = numpy.random.get_state()
    cases = histories(rng, 25 if ctx.quick else 250)
    numpy.random.set_state(state)
    path = os.path.join(ctx.workdir, "c18_trace.json")
    with open(path, "w") as f:
        json.dump({"cases": cases}, f)
    r = ctx.tlc("Trace_Shuffle", "Trace.cfg", env={"TRACE_FILE": path}, workers=8, timeout=1800)
    got = {x["cid"]: x["verdict"] for x in r.records if "verdict" in x}
    if len(got) != len(cases):
        raise Machinery("trace validation returned %d verdicts for %d cases" % (len(got), len(cases)))
    for i, c in enumerate(cases, 1):
        ctx.judged()
        for e in c.get("events", []):
            ctx.mark("T%d:%d" % (e["k"], e["seed"]))
        if got[i] != "ok":
            small = {"kind": c["kind"], "events": [{k: e[k] for k in ("k", "seed", "intact", "other")} for e in c.get("events", [])]}
            ctx.violation(got[i].split(":", 1)[1], small, "ok", got[i])
    ctx.sample({"flow": "B", "history": [{k: e[k] for k in ("k", "seed", "tid", "other")} for e in cases[0].get("events", [])], "verdict": got[1]})
    ctx.assumptions += ["'no effect other than on the global random state' is observed through earlier returned tables and the "
                        "reproducibility of later calls; other process state is covered by C20"]
    return {"scope": {"experiments": len(recs), "histories": len(cases)}}


def replay(ctx, v):
    c = v["case"]
    if "row" in c:
        rec = dict(c)
        rec.setdefault("strand", [])
        rec.setdefault("arc", -1)
        print("replay:", _replay_one(rec))
    print(json.dumps(v, indent=1)[:1500])
    return 1
