"""C02 - every emitted strand obeys the biochemical constraints it was generated for."""
import json

import dsw
from vlib import impl
from vlib import pipeflow as pf
from vlib.props import c04, c12

RULE = ("Flow A: MC_Pipe (filter -> vertices -> coding graph -> encode) with EveryWindowValid, OnlyRetained, VertexIsWindow, "
        "LocalToGlobal as invariants over the built-in order-2 (and order-3) configurations and a stratum of arbitrary order-2 vertex "
        "sets as user-defined predicates x t x retained starts x messages x modes x {no shuffling, a shuffle table}; the real pipeline is run on every exported input, "
        "the real filter is asked about every window of start k-mer + strand and about the whole strand, and Trace_Pipe judges the "
        "record with the specification's window predicate. The constructor clause is judged on every configuration TLC finds "
        "accepted-but-undecidable. Flow B: seeded realistic filters of orders 3..5, messages to 256 (1024) bits. "
        "Distinct non-trivial = distinct (graph, start, message, mode) with a non-empty message.")

MINE = {"window-violates-constraints", "filter-rejects-window", "whole-sequence-check-fails"}


def ctor_clause(ctx):
    """Every configuration the constructor accepts must be window-decidable: TLC (MC_Filter scope) names the configurations that
    are not decidable; the real constructor must reject each of them."""
    r = ctx.tlc("MC_CtorScope", "MC_CtorScope.cfg", workers=4)
    n = 0
    for rec in r.records:
        kw = {"observed_length": rec["k"]}
        if rec["run"] > 0:
            kw["max_homopolymer_runs"] = rec["run"]
        if rec["motifs"]:
            kw["undesired_motifs"] = [impl.dna(m) for m in rec["motifs"]]
        o = impl.call(dsw.LocalBioFilter, **kw)
        ctx.judged()
        n += 1
        ctx.mark("ctor" + json.dumps(rec))
        accepted = o["out"] == "ok"
        if rec["decidable"] and not accepted:
            # the property only says that what the constructor accepts is window-decidable; a stricter constructor is a conformance note
            ctx.divergence("conformance:constructor-rejects-decidable-configuration", {"cfg": rec, "raised": o.get("type")})
        if not rec["decidable"] and accepted:
            ctx.violation("constructor-accepts-undecidable-configuration", rec, "ValueError", "accepted",
                          features={"run_equals_k": rec["run"] == rec["k"], "motif_longer_than_k": any(len(m) > rec["k"] for m in rec["motifs"])})
    return n


def run(ctx):
    ctx.tlc("MC_Pipe", "MC_Pipe_d8.cfg", expect_violation=True, workers=16, heap="8g", env={"VERIF_SLOT": "0"})
    cfgs = ["MC_Pipe_cfg_quick.cfg", "MC_Pipe_mask_quick.cfg"] if ctx.quick else ["MC_Pipe_cfg_thorough.cfg", "MC_Pipe_mask_thorough.cfg"]
    na = pf.flow_a(ctx, cfgs, MINE)
    nc = ctor_clause(ctx)
    nb = c04.flow_b(ctx, MINE, 30 if ctx.quick else 250, 256 if ctx.quick else 1024, 2)
    ctx.sample({"flow": "A", "note": "inputs enumerated by MC_Pipe; see tlc_runs", "cases": na})
    ctx.assumptions += ["user-defined filters are modelled as arbitrary sets of accepted k-mers",
                        "GC bounds restricted to rationals whose float products order integer counts like the rational (guarded)"]
    return {"scope": {"flowA_cases": na, "ctor_cases": nc, "flowB_cases": nb}}


replay = c04.replay
