"""C13 - vertex indices are k-mers, arcs are shift-append."""
import json
import os
import random

import numpy

import dsw
from vlib import impl

RULE = ("Flow A: TLC enumerates every vertex of every order 1..KMax, checks C13At/PredIffSucc on the spec and exports "
        "k-mer/successor/predecessor tables that are replayed into obtain_latters, obtain_formers, number_to_dna, "
        "dna_to_number and get_complete_accessor. Flow B: seeded (k, v) up to order 13 and accessors returned by the "
        "library's builders/converters are recorded from the code and judged by Trace_DeBruijn. "
        "Distinct non-trivial = distinct (k, v) with k >= 2 or distinct accessor digests.")


def _replay_one(rec):
    k, v = rec["k"], rec["v"]
    bad = []
    kmer = impl.dna(rec["kmer"])
    r = impl.call(dsw.obtain_latters, v, k)
    if r["out"] != "ok" or [impl.index_of(x) for x in r["value"]] != rec["succ"]:
        bad.append(("successors", rec["succ"], impl.jsonable(r.get("value", r))))
    r = impl.call(dsw.obtain_formers, v, k)
    if r["out"] != "ok" or [impl.index_of(x) for x in r["value"]] != rec["pred"]:
        bad.append(("predecessors", rec["pred"], impl.jsonable(r.get("value", r))))
    for arg in (v, str(v)):
        r = impl.call(dsw.number_to_dna, arg, k)
        if r["out"] != "ok" or r["value"] != kmer:
            bad.append(("index-to-kmer", kmer, impl.jsonable(r.get("value", r))))
    for flag in (True, False):
        r = impl.call(dsw.dna_to_number, kmer, is_string=flag)
        if r["out"] != "ok" or int(r["value"]) != v:
            bad.append(("kmer-to-index", v, impl.jsonable(r.get("value", r))))
    return bad


def _complete_rows(k):
    """History: ask for the complete accessor, trim the returned array in place (as arc removal does), ask again.
    Both answers must be the complete graph."""
    r = impl.call(dsw.get_complete_accessor, k)
    if r["out"] != "ok":
        return r
    first = impl.acc_list(r["value"])
    try:
        r["value"][0, 0] = -1
        r["value"][-1, :] = -1
    except Exception:  # noqa
        pass
    r2 = impl.call(dsw.get_complete_accessor, k)
    second = impl.acc_list(r2["value"]) if r2["out"] == "ok" else r2
    return first if first == second else {"first": first[:2], "second_after_in_place_trim": second[:2] if isinstance(second, list) else second}


def _accessors(seed, n):
    """Accessors handed back by the library on seeded inputs (recorded from the code)."""
    rng = random.Random(seed)
    out = []
    for i in range(n):
        k = rng.choice([1, 2, 2, 3, 3, 4])
        N = 4 ** k
        dens = rng.choice([0.5, 0.7, 0.9, 1.0])
        mask = numpy.array([rng.random() < dens for _ in range(N)])
        if not mask.any():
            mask[rng.randrange(N)] = True
        src = []
        r = impl.call(dsw.connect_valid_graph, k, mask)
        if r["out"] == "ok":
            src.append(("connect_valid_graph", r["value"]))
            lm = dsw.accessor_to_latter_map(r["value"])
            for th in (None, 2):
                user = dict((int(a), [int(x) for x in (reversed(list(b)) if i % 2 else b)]) for a, b in lm.items())   # successor order as a user writes it
                r2 = impl.call(dsw.latter_map_to_accessor, user, k, threshold=th)
                if r2["out"] == "ok":
                    src.append(("latter_map_to_accessor(threshold=%s)" % th, r2["value"]))
            if k <= 3:
                r3 = impl.call(dsw.adjacency_matrix_to_accessor, dsw.accessor_to_adjacency_matrix(r["value"]))
                if r3["out"] == "ok":
                    src.append(("adjacency_matrix_to_accessor", r3["value"]))
            if k in (2, 3):
                m = dsw.accessor_to_adjacency_matrix(r["value"])
                u = rng.randrange(N)
                w = rng.choice([x for x in range(N) if x // 4 != (4 * u % N) // 4])
                m[u, w] = 1                                                    # an arc that is not a shift
                r5 = impl.call(dsw.adjacency_matrix_to_accessor, m)
                if r5["out"] == "ok":
                    src.append(("adjacency_matrix_to_accessor(matrix with a stray arc)", r5["value"]))
                for u in rng.sample(range(N), 4):                               # a target just below / above the row's successor block
                    first = (4 * u) % N
                    for w in ((first - 1) % N, (first - 3) % N, (first + 4) % N):
                        m3 = numpy.zeros((N, N), dtype=int)
                        m3[u, w] = 1
                        r7 = impl.call(dsw.adjacency_matrix_to_accessor, m3)
                        if r7["out"] == "ok":
                            src.append(("adjacency_matrix_to_accessor(arc next to the successor block)", r7["value"]))
                if k == 3:
                    for u in rng.sample(range(16, N), 6):                       # a target that would be a successor one order lower
                        m2 = numpy.zeros((N, N), dtype=int)                    # nothing but the one questionable arc
                        m2[u, (4 * u + rng.randrange(4)) % (N // 4)] = 1
                        r6 = impl.call(dsw.adjacency_matrix_to_accessor, m2)
                        if r6["out"] == "ok":
                            src.append(("adjacency_matrix_to_accessor(matrix with a lower-order arc)", r6["value"]))
        t = rng.choice([1, 2, 3])
        r = impl.call(dsw.connect_coding_graph, k, mask, t, _budget=4 * N + 8)
        if r["out"] == "ok":
            src.append(("connect_coding_graph(t=%d)" % t, r["value"][1]))
            acc = r["value"][1].copy()
            lm = dsw.accessor_to_latter_map(acc)
            if k >= 2 and len(lm) > 0:
                r4 = impl.call(dsw.remove_nasty_arc, acc, lm)
                if r4["out"] == "ok":
                    src.append(("remove_nasty_arc", r4["value"][0]))
        for name, acc in src:
            out.append({"kind": "acc", "src": name, "k": k, "acc": impl.acc_list(acc)})
    return out


def run(ctx):
    cfg = "MC_DeBruijn_%s.cfg" % ctx.tier
    ctx.tlc("MC_DeBruijn", "MC_DeBruijn_witness.cfg", expect_violation=True, workers=4)
    r = ctx.tlc("MC_DeBruijn", cfg, workers=16, timeout=1200)
    recs = r.records
    kmax = 6 if ctx.quick else 7
    expect_n = sum(4 ** k for k in range(1, kmax + 1))
    if len(recs) != expect_n:
        raise ctx_machinery("expected %d exported vertices, got %d" % (expect_n, len(recs)))
    ctx.exhaustive = True
    # ---- Flow A: replay
    results = impl.pmap(_replay_one, recs)
    for rec, bad in zip(recs, results):
        ctx.judged()
        if rec["k"] >= 2:
            ctx.mark("A:%d:%d" % (rec["k"], rec["v"]))
        for clause, exp, obs in bad:
            ctx.violation(clause, {"kind": "arith", "k": rec["k"], "v": rec["v"]}, exp, obs)
    ctx.sample({"flow": "A", "record": recs[len(recs) // 2]})
    by_k = {}
    for rec in recs:
        by_k.setdefault(rec["k"], {})[rec["v"]] = rec["succ"]
    for k, rows in sorted(by_k.items()):
        got = _complete_rows(k)
        ctx.judged()
        exp = [rows[v] for v in range(4 ** k)]
        if got != exp:
            ctx.violation("complete-accessor-row", {"kind": "complete", "k": k}, "column j = j-th successor", "differs")
    # ---- Flow B: code -> spec
    rng = random.Random(ctx.seed * 7919 + 13)
    cases = []
    nar = 600 if ctx.quick else 6000
    # history: threshold-1 generations that trim information-free cycles (with tails) run first in this process; the helpers are then
    # asked about every vertex of those orders
    for k, mask in ((2, [1, 4, 5, 6, 9]), (2, [0, 1, 2, 4, 8]), (3, [5, 20, 17, 21, 22, 25, 37]), (3, list(range(0, 64, 3)))):
        m = numpy.zeros(4 ** k, dtype=bool)
        m[mask] = True
        impl.call(dsw.connect_coding_graph, k, m, 1, _budget=8 * 4 ** k + 16)
    todo = [(k, v) for k in (2, 3) for v in range(4 ** k)] + [(rng.randint(1, 13), None) for _ in range(nar)]
    for k, v in todo:
        v = rng.randrange(4 ** k) if v is None else v
        c = {"kind": "arith", "k": k, "v": v}
        c["latters"] = [impl.index_of(x) for x in dsw.obtain_latters(v, k)]
        c["formers"] = [impl.index_of(x) for x in dsw.obtain_formers(v, k)]
        s1, s2 = dsw.number_to_dna(v, k), dsw.number_to_dna(str(v), k)
        c["kmer_int"], c["kmer_str"] = impl.undna(s1), impl.undna(s2)
        kmer = "".join(impl.NT[(v // 4 ** (k - 1 - i)) % 4] for i in range(k))  # transport of v as a string only
        c["back_int"] = int(dsw.dna_to_number(s1, is_string=False))
        c["back_str"] = int(dsw.dna_to_number(s1, is_string=True))
        c["row"] = c["latters"] if k > 6 else [impl.index_of(x) for x in _CA(k)[v]]
        cases.append(c)
    cases += _accessors(ctx.seed, 40 if ctx.quick else 400)
    path = os.path.join(ctx.workdir, "c13_trace.json")
    with open(path, "w") as f:
        json.dump({"cases": cases}, f)
    r = ctx.tlc("Trace_DeBruijn", "Trace.cfg", env={"TRACE_FILE": path}, workers=8, timeout=900)
    verdicts = {x["cid"]: x["verdict"] for x in r.records if "verdict" in x}
    if len(verdicts) != len(cases):
        raise ctx_machinery("trace validation returned %d verdicts for %d cases" % (len(verdicts), len(cases)))
    for i, c in enumerate(cases, 1):
        ctx.judged()
        vd = verdicts[i]
        if c["kind"] == "arith":
            if c["k"] >= 2:
                ctx.mark("B:%d:%d" % (c["k"], c["v"]))
        else:
            ctx.mark("acc:" + json.dumps(c["acc"]))
        if vd != "ok":
            ctx.violation(vd.split(":", 1)[1], c, "ok", vd)
    ctx.sample({"flow": "B", "case": cases[0], "verdict": verdicts[1]})
    ctx.sample({"flow": "B", "case": {"kind": "acc", "src": cases[-1]["src"], "k": cases[-1]["k"]}, "verdict": verdicts[len(cases)]})
    from vlib import apalache
    ctx.notes["unbounded_lemmas"] = apalache.lemmas(["Ind_Shift"], ctx)     # successor/predecessor inversion for every order (4^(k-1) symbolic)
    ctx.assumptions += ["TLC's 32-bit integers restrict the orders to k <= 13 in Flow B",
                        "conformance of the code is established on the enumerated and seeded cases, not for all inputs"]
    return {"scope": {"KMax": kmax, "flowB_arith": nar}}


_CACHE = {}


def _CA(k):
    if k not in _CACHE:
        _CACHE[k] = dsw.get_complete_accessor(k)
    return _CACHE[k]


def ctx_machinery(msg):
    from vlib.core import Machinery
    return Machinery(msg)


def replay(ctx, v):
    c = v["case"]
    if c.get("kind") == "arith" and "latters" not in c:
        r = ctx.tlc("MC_DeBruijn", "MC_DeBruijn_quick.cfg", workers=8)
        rec = [x for x in r.records if x["k"] == c["k"] and x["v"] == c["v"]]
        bad = _replay_one(rec[0]) if rec else []
        print("replay:", bad or "no violation")
        return 1 if bad else 0
    print("replay: recorded case\n" + json.dumps(v, indent=1)[:3000])
    return 1
