"""C10 - repair always returns."""
from vlib import repairflow as rf
from vlib.props import c08

RULE = ("Flow A: on the repair machine TLC checks the action property ScanAdvances (loc strictly increases), TickBound (at most n "
        "scan iterations) and LookupBound for every A/C/G/T string of length k..5 (6) on generated order-1/2 graphs, every start, and the temporal property Termination (<>Done under weak fairness, strings to 4 nt), "
        "checks, indel on/off, heap limits - every position of every error, including the first nucleotide and the last window; "
        "repair_dna is run on every exported case under a scan-tick budget of n taken from the specification (exceeding it is the "
        "verdict), must return a well-formed (candidates, statistics) pair, raise nothing, and stay inside the look-up bound. "
        "Flow B: seeded strands to 200 nt with errors at the ends, dense errors and random strings, and 600..900 nt strands with an error "
        "every 10..13 nt under the default heap limit. "
        "Distinct non-trivial = distinct (graph, start, strand, check, indel, heap) that is not a clean walk.")

MINE = rf.C10


def run(ctx):
    ctx.tlc("MC_Repair", "MC_Repair_witness2.cfg", expect_violation=True, workers=16, heap="8g")
    ctx.tlc("MC_Repair", "MC_Repair_live.cfg", workers=8, timeout=900)        # <>Done under WF(Next)
    cfgs = ["MC_Repair_strings_quick.cfg"] if ctx.quick else ["MC_Repair_strings_thorough.cfg"]
    na = rf.flow_a(ctx, cfgs, MINE, "A")
    ctx.exhaustive = True
    nb = c08.flow_b(ctx, MINE, 50 if ctx.quick else 400, 10, kinds=("anywhere", "anywhere", "clean", "edited", "long"))
    ctx.sample({"flow": "A", "note": "cases enumerated by MC_Repair; see tlc_runs", "cases": na})
    ctx.assumptions += ["the scan bound is enforced through the rep_scan tick hook (DSW_VERIF=1) with a 30 s watchdog behind it",
                        "strands over A, C, G, T only, at least one window long"]
    return {"scope": {"flowA_cases": na, "flowB_cases": nb}}


replay = c08.replay
