"""C05 - the strand is the documented mixed-radix walk, independent of implementation."""
import json
import random

from vlib import codingflow as cf
from vlib import impl
from vlib.core import Machinery
from vlib.props import c01

RULE = ("Flow A: as C01, but the verdict is exact equality of the emitted strand (and check) with the strand of the specification's "
        "encoder, which TLC proves (DocHolds, DecValue) to be the documented little-endian mixed-radix / bit-pair walk; plus "
        "MC_Decode: every string up to MaxLen over {A,C,G,T} that is a walk is decoded at every width and the recorded bits must "
        "equal the big-endian rendering of its documented value. Flow B: seeded orders 2..5, messages to 4096 bits, TLC recomputes "
        "the strand with limb arithmetic. Distinct non-trivial = distinct judged cases with a non-empty message / strand.")

MINE = {"strand", "decode-of-documented-strand", "decoded-value", "wrong-length", "rejects-walk"}


def run(ctx):
    ctx.tlc("MC_Coding", "MC_Coding_witness.cfg", expect_violation=True, workers=8, heap="8g")
    cfgs = ["MC_Coding_quick.cfg"] if ctx.quick else ["MC_Coding_quick.cfg", "MC_Coding_thorough2.cfg"]      # the all-graphs scope runs under C01
    na = c01.flow_a(ctx, MINE, cfgs)
    from vlib.props import c06
    nd = c06.flow_a(ctx, MINE, walks_only=True)
    nb = c01.flow_b(ctx, MINE, 40 if ctx.quick else 300, 512 if ctx.quick else 4096, 5)
    nb2 = c06.flow_b(ctx, MINE, 150 if ctx.quick else 1500, 5, walks_bias=0.9)
    ns = 0
    if not ctx.quick:
        from vlib import suiteflow
        ns = suiteflow.judge(ctx, mine_coding=MINE)      # Flow S: the repository's own tests as trace sources
    ctx.exhaustive = ctx.quick
    ctx.assumptions += ["the reference strand is the specification's encoder, shown by TLC to satisfy the declarative DocScheme "
                        "on the model-checking scope and by Apalache (Ind_Mix) to be the mixed-radix representation for unbounded values"]
    from vlib import apalache
    ctx.notes["unbounded_lemmas"] = apalache.lemmas(["Ind_Mix"], ctx)
    return {"scope": {"flowA_behaviours": na, "flowA_decodes": nd, "flowB_cases": nb + nb2, "suite_cases": ns}}


replay = c01.replay
