"""C08 - repair recovers the original strand for separated interior edits."""
import json
import random

import dsw
from vlib import codingflow as cf
from vlib import impl
from vlib import repairflow as rf

RULE = ("Flow A: TLC runs the repair machine (scan step per action, look-back, product, check filter) on every walk of length "
        "6..8 (7..10) of generated order-1 and order-2 graphs (one with a self-loop next to a late-surfacing error; thorough: 12-step walks of an order-3 graph over {A, C} without runs of three), x every "
        "admissible single edit (pairs thorough), with and without the "
        "check of the original, indel on (and off for substitutions), checking Recovers and DetectsIffNotWalk; every exported case "
        "is replayed into repair_dna: a result equal to the machine's inherits TLC's verdict, a differing one is judged on its own "
        "by Trace_Repair; half of the replayed calls are preceded by a repair of the same strand on the same accessor object with the "
        "other has_indel setting (history must not show). Flow B: seeded walks of 40..200 nt on generated graphs of orders 2..4 with 1..3 spaced edits "
        "(admissibility decided by TLC). Distinct non-trivial = distinct (graph, start, corrupted strand, check, indel).")

MINE = rf.C08


def make_edits(rng, w, k, count):
    n = len(w)
    lo, hi = k, n - 2 * k
    pos, p = [], lo + rng.randint(0, 3)
    while p < hi and len(pos) < count:
        pos.append(p)
        p += 3 * k + 2 + rng.randint(0, 6)
    es = []
    for p in pos:
        op = rng.choice("SID")
        if op == "S":
            es.append({"op": "S", "pos": p, "sym": rng.choice([x for x in range(4) if x != w[p]])})
        elif op == "I":
            es.append({"op": "I", "pos": p, "sym": rng.randrange(4)})
        else:
            es.append({"op": "D", "pos": p, "sym": 0})
    return es


def apply_edits(w, es):
    s = list(w)
    for e in reversed(es):                     # transport: positions refer to the original walk
        if e["op"] == "S":
            s[e["pos"]] = e["sym"]
        elif e["op"] == "I":
            s.insert(e["pos"], e["sym"])
        else:
            del s[e["pos"]]
    return s


def flow_b(ctx, mine, n, salt, kinds=("edited",)):
    rng = random.Random(ctx.seed * 715827883 % (2 ** 31) + salt)
    graphs, cases = [], []
    for i in range(n):
        k = ([2, 3, 4, 5, 2, 3, 5, 4] if ctx.quick else [2, 3, 4, 5, 6, 3, 5, 4])[i % 8]          # every order in every run, not by chance
        live = None
        for _ in range(5):
            live = cf.filter_live(rng, k) if (k >= 3 and i % 2 == 1) else cf.generated_live(rng, k)
            if live:
                break
        if not live:
            continue
        graphs.append({"k": k, "live": live})
        gi = len(graphs)
        acc = impl.accessor(live)
        pairs_from = 4 if (k <= 3 and "edited" in kinds) else 99      # orders 2 and 3: four more walks carrying exactly two spaced edits each
        for j in range(8 if pairs_from == 4 else (4 if k < 5 else 10)):          # index arithmetic beyond one byte starts at order 5: more cases there
            start = cf.pick_start(rng, live)
            L = rng.choice([3 * k + 4, 40, 80, 120, 200])
            if j >= pairs_from:
                L = max(L, 8 * k + 16)
            if "long" in kinds and j == 0 and i % 8 in (0, 2, 3):        # orders 2, 4 and 5 (thorough: 2, 4, 5)
                L = rng.choice([600, 900])              # many separated error sites: the candidate product is astronomically large (beyond 64 bits)
            w, v = [], start
            for _ in range(L):
                a = rng.choice(live[v])
                w.append(a)
                v = (4 * v + a) % len(live)
            kind = kinds[(i + j) % len(kinds)]
            if (k >= 5 or j >= pairs_from) and j >= 4 and "edited" in kinds:
                kind = "edited"
            if L >= 600:
                kind = "long"
            periodic = None
            if kind == "edited" and j == 3:
                # a periodic walk (a cycle of the graph repeated) with the same edit a whole number of periods apart: identical local context
                seen, path, v = {}, [], start
                while v not in seen and len(path) < 64:
                    seen[v] = len(path)
                    a = rng.choice(live[v])
                    path.append(a)
                    v = (4 * v + a) % len(live)
                if v in seen:
                    pre, cyc = path[:seen[v]], path[seen[v]:]
                    reps = max(3, (8 * k + 12) // len(cyc) + 2)
                    w = pre + cyc * reps
                    m = -(-(3 * k + 2) // len(cyc))                      # periods between the two edits (ceil)
                    p1 = len(pre) + len(cyc) * (-(-k // len(cyc))) + rng.randrange(len(cyc))
                    p2 = p1 + m * len(cyc)
                    if p2 < len(w) - 2 * k and p1 >= k:
                        op = rng.choice("SID")
                        sym = rng.choice([x for x in range(4) if x != w[p1]]) if op == "S" else (rng.randrange(4) if op == "I" else 0)
                        periodic = [{"op": op, "pos": p1, "sym": sym}, {"op": op, "pos": p2, "sym": sym}]
            if kind == "edited":
                es = periodic or make_edits(rng, w, k, 2 if j >= pairs_from else rng.choice([1, 1, 2, 3] if k <= 2 else ([1, 1, 2] if k < 5 else [1, 1, 1, 2])))        # keeps the candidate product (up to ~8k fragments per edit) in the low thousands
                s = apply_edits(w, es)
                only_subs = all(e["op"] == "S" for e in es)
                indel = True if not only_subs else rng.choice([True, False])
                heap = -1
                ww = w
            elif kind == "long":
                es, ww = [], []
                s = list(w)
                p = k + 2
                while p < len(s) - 2 * k:
                    s[p] = (s[p] + rng.randint(1, 3)) % 4
                    p += rng.randint(10, 13)
                indel, heap = rng.choice([True, True, False]), 1000
            elif kind == "clean":
                es, s, indel, heap, ww = [], list(w), rng.choice([True, False]), rng.choice([0, 1, 3, 1000]), []
            else:   # anywhere: errors in the first / last window, random strings, dense errors
                es, ww = [], []
                s = list(w)
                m = rng.randrange(4)
                if m == 0:
                    s[0] = (s[0] + 1) % 4
                elif m == 1:
                    s[-rng.randint(1, k)] = rng.randrange(4)
                elif m == 2:
                    s = [rng.randrange(4) for _ in range(rng.choice([k, k + 1, 2 * k, 30]))]
                else:
                    for p in range(0, len(s), rng.randint(2, 9)):
                        s[p] = rng.randrange(4)
                indel, heap = rng.choice([True, False]), rng.choice([0, 1, 3, 1000, 1000])     # a finite heap limit bounds the candidate product
            vtmode = rng.choice(["none", "right", "wrong"]) if kind != "edited" else rng.choice(["none", "right"])
            vt = []
            if vtmode != "none":
                base = w if kind == "edited" else s
                nvt = rng.choice([1, 2, 3, 5, 33, 40])
                rv = impl.call(dsw.set_vt, impl.dna(base), nvt)
                if rv["out"] == "ok":
                    vt = impl.undna(rv["value"])
                    if vtmode == "wrong":
                        vt[0] = (vt[0] + 1) % 4
                else:
                    vt = [rng.randrange(4) for _ in range(nvt)]      # any string is a legitimate check to supply
            rec = {"start": start, "dna": s, "vt": vt, "indel": indel, "heap": heap}
            o = rf.run_repair(acc, start, s, k, vt, indel, heap, log=(len(s) <= 200), prior=(j % 2 == 1 and len(s) <= 200))
            cases.append(rf.case_of(gi, rec, o, w=ww, es=es))
    # conformance only: the public path_matching function with its (kind, position, nucleotide) annotations and look-up count
    for gi, g in enumerate(graphs[:12], 1):
        acc = impl.accessor(g["live"])
        k = g["k"]
        for _ in range(3):
            v = cf.pick_start(rng, g["live"])
            chunk = [rng.randrange(4) for _ in range(2 * k - 1)]
            occ = rng.randrange(k)
            indel = rng.choice([True, False])
            r = impl.call(dsw.path_matching, impl.dna(chunk), acc, v, occ, has_indel=indel)
            if r["out"] == "ok":
                recs = [{"kind": a[0], "pos": int(a[1]), "nt": impl.NT.index(a[2]), "s": impl.undna(s_)} for a, s_ in r["value"][0]]
                cases.append({"kind": "pm", "g": gi, "chunk": chunk, "prev": v, "occ": occ, "indel": indel, "records": recs, "visited": int(r["value"][1]),
                              "start": v, "dna": chunk, "vt": [], "heap": 1, "w": [], "es": [], "out": "ok", "cands": [], "det": 0, "flag": False,
                              "count": 0, "ticks": 0, "shape": True})
    got = rf.validate(ctx, graphs, cases, "repair_b_%d.json" % salt)
    ndiv = 0
    for i, c in enumerate(cases, 1):
        v = got[i]
        if v == ["precondition-false"]:
            ctx.vacuous += 1
            continue
        if c.get("kind") == "pm":
            for cl in v:
                if cl.startswith("conformance:"):
                    ctx.divergence(cl, {"k": graphs[c["g"] - 1]["k"], "chunk": impl.dna(c["chunk"]), "prev": c["prev"], "occ": c["occ"]})
            continue
        if "note:edit-set-not-admissible" in v:
            ctx.vacuous += 1
        ctx.judged()
        ctx.mark("B" + json.dumps([c["g"], c["start"], c["dna"], c["vt"], c["indel"], c["heap"]]))
        for cl in v:
            if cl.startswith("conformance:"):
                ndiv += 1
                ctx.divergence(cl, {"k": graphs[c["g"] - 1]["k"], "start": c["start"], "dna": impl.dna(c["dna"])})
            elif cl in mine:
                g = graphs[c["g"] - 1]
                ctx.violation(cl, {"k": g["k"], "live": g["live"] if g["k"] <= 2 else "order %d (seeded)" % g["k"], "start": c["start"],
                                   "dna": impl.dna(c["dna"]), "vt": impl.dna(c["vt"]), "indel": c["indel"], "heap": c["heap"],
                                   "w": impl.dna(c["w"]), "es": c["es"], "out": c["out"], "det": c["det"]}, "ok", cl)
    c0 = cases[0]
    ctx.sample({"flow": "B", "case": {"k": graphs[c0["g"] - 1]["k"], "n": len(c0["dna"]), "edits": c0["es"], "det": c0["det"],
                                      "candidates": len(c0["cands"]), "visited": c0["visited"]}, "verdict": got[1]})
    return len(cases)


def run(ctx):
    ctx.tlc("MC_Repair", "MC_Repair_witness1.cfg", expect_violation=True, workers=16, heap="8g")
    cfgs = ["MC_Repair_edits_quick1.cfg", "MC_Repair_edits_quick2.cfg"] if ctx.quick else \
        ["MC_Repair_edits_thorough1.cfg", "MC_Repair_edits_thorough2.cfg", "MC_Repair_edits_quick3.cfg", "MC_Repair_pairs_thorough1.cfg"]
    na = rf.flow_a(ctx, cfgs, MINE, "A")
    ctx.exhaustive = True
    nb = flow_b(ctx, MINE, 40 if ctx.quick else 300, 8)
    ctx.sample({"flow": "A", "note": "cases enumerated by MC_Repair; see tlc_runs", "cases": na})
    ctx.assumptions += ["graphs are produced by graph generation (CodingSet of a mask); heap limit unrestricted (1e9)"]
    return {"scope": {"flowA_cases": na, "flowB_cases": nb}}


def replay(ctx, v):
    c = v["case"]
    if isinstance(c.get("live"), list):
        acc = impl.accessor(c["live"])
        o = rf.run_repair(acc, c["start"], impl.undna(c["dna"]), c["k"], impl.undna(c["vt"]), c["indel"], c["heap"])
        print("replay: repair_dna ->", o["out"], [impl.dna(x) for x in o["cands"]], (o["det"], o["flag"], o["count"], o["visited"]), "ticks", o["ticks"])
    print(json.dumps(v, indent=1)[:1500])
    return 1
