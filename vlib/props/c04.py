"""C04 - encoding is total, dead-end free and tight on generated graphs."""
import json
import random

import numpy

from vlib import codingflow as cf
from vlib import impl
from vlib import pipeflow as pf

RULE = ("Flow A: TLC runs filter/mask -> CodingSet -> encode as one machine (MC_Pipe) on every order-1 mask, a seed-chosen stratum "
        "of the order-2 masks and the built-in order-2 configurations x t = 1..4 x every retained start x messages up to 3 (4) bits x "
        "modes, with EncTotal, WalkInv, StepBound, LastIsBranching, TightNormal, TightFast as invariants (and <>done under weak "
        "fairness on order 1); the real pipeline is run on every exported input under a tick budget of L*|V| and the recorded "
        "strand, tick count and outcome are judged by Trace_Pipe. Flow B: seeded filters/masks of orders 3..5, messages to 1024 "
        "bits. Distinct non-trivial = distinct (graph, start, message, mode) with a non-empty message.")

MINE = {"termination-bound", "encode-raises", "not-a-walk", "last-step-carries-no-information", "not-tight", "fast-bits-carried"}


def flow_b(ctx, mine, n, maxbits, salt):
    from vlib.props import c12
    rng = random.Random(ctx.seed * 1000003 % (2 ** 31) + salt)
    graphs, cases = [], []
    for i in range(n):
        k = rng.choice([3, 3, 4, 4, 5])
        t = rng.choice([1, 1, 2, 2, 3])
        if i % 2 == 0:
            run = rng.choice([0, 1, 2, 3][:k])
            den = rng.choice([10, 4, 5])
            lo, hi = rng.randint(0, den // 2), rng.randint(den // 2, den)
            gc = [] if rng.random() < 0.3 else [lo, hi, den]
            ms = [m for m in rng.sample(c12.LIT_MOTIFS, rng.choice([0, 1, 2])) if len(m) <= k]
            cfg = {"k": k, "run": run, "gc": gc, "motifs": [impl.undna(m) for m in ms]}
            if not c12.float_guard(k, gc):
                continue
            g = {"k": k, "src": "cfg", "cfg": cfg, "mask": [], "t": t, "ret": [-1]}
        else:
            dens = rng.choice([0.5, 0.7, 0.9])
            g = {"k": k, "src": "mask", "cfg": {"k": k, "run": 0, "gc": [], "motifs": []},
                 "mask": sorted(v for v in range(4 ** k) if rng.random() < dens), "t": t, "ret": [-1]}
        flt, gen_out, verts, acc = pf.build_graph(g["src"], g["cfg"], g["mask"], k, t)
        graphs.append(g)
        gi = len(graphs)
        if acc is None or not verts:
            cases.append(dict(pf.observe(g, 0, [], "normal", 0), g=gi))
            continue
        live = impl.live_of(acc)
        nodeg3 = all(len(L) != 3 for L in live)
        for j in range(4):
            start = rng.choice(verts)
            L = rng.choice([0, 1, 2, 5, 16, 33, 100, maxbits, rng.randint(0, maxbits)])
            msg = cf.make_msg(rng, L)
            mode = "fast" if (nodeg3 and j % 2 == 1) else "normal"
            c = pf.observe(g, start, msg, mode, L * len(verts))
            c["g"] = gi
            cases.append(c)
    got = pf.judge(ctx, graphs, cases, mine, "pipe_b_%d.json" % salt, "B")
    big = max(cases, key=lambda c: len(c["msg"]))
    ctx.sample({"flow": "B", "graph": {k: graphs[big["g"] - 1][k] for k in ("k", "src", "cfg", "t")}, "bits": len(big["msg"]),
                "mode": big["mode"], "strand_len": len(big["strand"]), "ticks": big["ticks"], "verdict": got[cases.index(big) + 1]})
    return len(cases)


def run(ctx):
    ctx.tlc("MC_Pipe", "MC_Pipe_witness.cfg", expect_violation=True, workers=16, heap="8g", env={"VERIF_SLOT": "5"})
    ctx.tlc("MC_Pipe", "MC_Pipe_live.cfg", workers=8, heap="8g", env={"VERIF_SLOT": "0"})
    cfgs = ["MC_Pipe_mask1.cfg", "MC_Pipe_cfg_quick.cfg", "MC_Pipe_mask_quick.cfg"] if ctx.quick else \
        ["MC_Pipe_mask1.cfg", "MC_Pipe_cfg_thorough.cfg", "MC_Pipe_mask_thorough.cfg"]
    na = pf.flow_a(ctx, cfgs, MINE)
    nb = flow_b(ctx, MINE, 30 if ctx.quick else 250, 256 if ctx.quick else 1024, 4)
    ctx.sample({"flow": "A", "note": "inputs enumerated by MC_Pipe; see tlc_runs", "cases": na})
    ctx.assumptions += ["the step bound is enforced through the encoder tick hook (DSW_VERIF=1) with a wall-clock watchdog behind it",
                        "order-2 masks are a seed-chosen stratum (1/128 quick, 1/8 thorough); order 1 is complete"]
    return {"scope": {"flowA_cases": na, "flowB_cases": nb}}


def replay(ctx, v):
    c = v["case"]
    if isinstance(c.get("mask"), list) or c.get("src") == "cfg":
        k = c["cfg"]["k"]
        g = {"src": c["src"], "cfg": c["cfg"], "mask": c["mask"] if isinstance(c["mask"], list) else [], "k": k, "t": c["t"]}
        o = pf.observe(g, c["start"], c["msg"], c["mode"], c["bits"] * (4 ** k))
        print("replay: gen=%s enc=%s strand=%s ticks=%d windows=%s whole=%s/%s" % (o["gen_out"], o["enc_out"], impl.dna(o["strand"]), o["ticks"],
                                                                                 o["fv_windows"], o["fv_strand"], o["fv_full"]))
    print(json.dumps(v, indent=1)[:1200])
    return 1
