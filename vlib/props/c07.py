"""C07 - the path check is the documented VT function and sees every substitution."""
import json
import os
import random

import dsw
from vlib import impl
from vlib.core import Machinery

RULE = ("Flow A: TLC enumerates every strand up to MaxLen x check length 1..MaxN, checks Shape / CodeIsDoc / EditsChange / "
        "FlagSeparates / EmptyDefined on the specification and exports the check plus, for short strands, every single-edit "
        "neighbour; set_vt is compared with the exported check, and decode(neighbour, vt_check=original) on a complete graph "
        "must raise ValueError (and accept the unedited strand). Flow B: seeded strands to 400 nt with check lengths 1..64 and "
        "their single edits are recorded from the code and judged by Trace_VT. "
        "Distinct non-trivial = distinct (strand, n) with a non-empty strand, and distinct (strand, neighbour, n) edit cases.")

_ACC = {}


def _complete(k=1):
    if k not in _ACC:
        _ACC[k] = dsw.get_complete_accessor(k)
    return _ACC[k]


def _decode_rejects(x, chk, fast=False):
    """decode on the complete order-1 graph: only the check can reject. Returns 'rejected' | 'accepted' | other."""
    r = impl.call(dsw.decode, x, 2 * len(x) + 2, _complete(), 0, vt_check=chk, is_faster=fast)
    if r["out"] == "ok":
        return "accepted"
    if r["out"] == "exc" and r["type"] == "ValueError":
        return "rejected"
    return "%s:%s" % (r["out"], r.get("type", r.get("msg")))


def _replay_one(rec):
    s, n = impl.dna(rec["s"]), rec["n"]
    want = impl.dna(rec["vt"])
    bad = []
    r = impl.call(dsw.set_vt, s, n)
    got = r["value"] if r["out"] == "ok" else r
    if got != want:
        bad.append(("vt-function" if isinstance(got, str) and len(got) == n else "check-length", want, impl.jsonable(got)))
        return bad, 0
    cnt = 0
    if rec["nb"]:
        if _decode_rejects(s, want) != "accepted":
            bad.append(("decode-rejects-own-check", "accepted", _decode_rejects(s, want)))
        for x in rec["nb"]:
            cnt += 1
            for fast in (False, True):
                o = _decode_rejects(impl.dna(x), want, fast)
                if o != "rejected":
                    bad.append(("decode-accepts-edit", "ValueError", {"neighbour": impl.dna(x), "outcome": o, "is_faster": fast}))
    return bad, cnt


def _edits(rng, s):
    out = []
    if s:
        i = rng.randrange(len(s))
        c = rng.choice([x for x in range(4) if x != s[i]])
        out.append(s[:i] + [c] + s[i + 1:])
        cand = [j for j in range(len(s)) if s[j] != 0]
        if cand:
            j = rng.choice(cand)
            out.append(s[:j] + s[j + 1:])
    i = rng.randint(0, len(s))
    out.append(s[:i] + [rng.randint(1, 3)] + s[i:])
    return out


def record(rng, nstr, maxlen):
    cases = []
    for i in range(nstr):
        L = rng.choice([0, 1, 2, 3, 10, 50, 150, maxlen, rng.randint(0, maxlen)])
        s = [rng.randrange(4) for _ in range(L)]
        if i % 7 == 0:
            s = sorted(s)            # many ascents: large position sums
        n = rng.choice([1, 2, 3, 4, 8, 16, 17, 32, 33, 34, 64, rng.randint(1, 64)])
        r = impl.call(dsw.set_vt, impl.dna(s), n)
        vt = impl.undna(r["value"]) if r["out"] == "ok" and isinstance(r["value"], str) else [-1]
        cases.append({"kind": "vt", "s": s, "n": n, "vt": vt})
        if vt != [-1] and L <= 150:
            for x in _edits(rng, s):
                rx = impl.call(dsw.set_vt, impl.dna(x), n)
                vtx = impl.undna(rx["value"]) if rx["out"] == "ok" and isinstance(rx["value"], str) else [-1]
                o = _decode_rejects(impl.dna(x), impl.dna(vt), fast=(len(x) % 2 == 1))
                cases.append({"kind": "edit", "s": s, "n": n, "x": x, "vtx": vtx, "rejected": o == "rejected", "outcome": o})
    return cases


def run(ctx):
    ctx.tlc("MC_VT", "MC_VT_witness.cfg", expect_violation=True, workers=4)
    r = ctx.tlc("MC_VT", "MC_VT_%s.cfg" % ctx.tier, workers=16, timeout=3000)
    recs = r.records
    if len(recs) != r.distinct or len(recs) < 20000:
        raise Machinery("exported %d records for %d states" % (len(recs), r.distinct))
    ctx.exhaustive = True
    res = impl.pmap(_replay_one, recs)
    for rec, (bad, cnt) in zip(recs, res):
        ctx.judged(1 + cnt)
        if rec["s"]:
            ctx.mark("A:%s:%d" % (impl.dna(rec["s"]), rec["n"]))
        for clause, exp, obs in bad:
            ctx.violation(clause, {"kind": "vt", "s": impl.dna(rec["s"]), "n": rec["n"]}, exp, obs)
    ctx.sample({"flow": "A", "record": [x for x in recs if len(x["s"]) == 3 and x["n"] == 3][7]})
    rng = random.Random(ctx.seed * 32452843 + 7)
    cases = record(rng, 250 if ctx.quick else 2500, 400)
    path = os.path.join(ctx.workdir, "c07_trace.json")
    with open(path, "w") as f:
        json.dump({"cases": cases}, f)
    r = ctx.tlc("Trace_VT", "Trace.cfg", env={"TRACE_FILE": path}, workers=16, timeout=3000)
    got = {x["cid"]: x["verdict"] for x in r.records if "verdict" in x}
    if len(got) != len(cases):
        raise Machinery("trace validation returned %d verdicts for %d cases" % (len(got), len(cases)))
    for i, c in enumerate(cases, 1):
        vd = got[i]
        if vd == "precondition-false":
            ctx.vacuous += 1
            continue
        ctx.judged()
        ctx.mark("B:%s:%s:%d" % (impl.dna(c["s"]), impl.dna(c.get("x", [])), c["n"]))
        if vd != "ok":
            ctx.violation(vd.split(":", 1)[1], {k: (impl.dna(v) if k in ("s", "x") else v) for k, v in c.items()}, "ok", vd)
    ctx.sample({"flow": "B", "case": {"len": len(cases[0]["s"]), "n": cases[0]["n"], "vt": impl.dna(cases[0]["vt"])}, "verdict": got[1]})
    from vlib import apalache
    ctx.notes["unbounded_lemmas"] = apalache.lemmas(["Ind_VT"], ctx)      # the flag separates single edits for strands of any length
    ctx.assumptions += ["decode is exercised on the complete order-1 graph so that only the check can reject"]
    return {"scope": {"MaxLen": 6 if ctx.quick else 8, "MaxN": 4 if ctx.quick else 5, "flowB_cases": len(cases)}}


def replay(ctx, v):
    c = v["case"]
    s, n = c["s"], c["n"]
    r = impl.call(dsw.set_vt, s, n)
    print("replay: set_vt(%r, %d) -> %s; expected %s" % (s, n, impl.jsonable(r.get("value", r)), v["expected"]))
    return 1
