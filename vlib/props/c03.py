"""C03 - the coding graph is the largest closed sub-graph, or a ValueError."""
import json
import os
import random

import numpy

import dsw
from vlib import impl
from vlib.core import Machinery

RULE = ("Flow A: TLC trims every one of the 65 536 order-2 vertex masks x threshold 1..4 round by round (DoneClosed, Removed, "
        "ErrorIffEmpty, TwinAgrees, brute-force Maximal for small masks, MonotoneStep; order 1 completely) and exports the retained "
        "set; all 262 144 (mask, t) pairs are replayed into connect_coding_graph with bool and 0/1-int masks and compared in outcome "
        "class, accessor, vertex description, unchanged input, and the latter-map route for t >= 2. Flow B: seeded masks of orders "
        "3..5 with nested sub-masks, judged by Trace_Generate. Distinct non-trivial = distinct (mask, t) with a non-empty result.")

N2 = 16


def outcome(r):
    return "ok" if r["out"] == "ok" else ("budget" if r["out"] == "budget" else r["type"])


def verts_of(desc, n):
    """The returned vertex description denotes a vertex set: a boolean/0-1 mask of length n, or an index list."""
    a = numpy.asarray(desc)
    if a.dtype == bool or (a.ndim == 1 and len(a) == n and set(numpy.unique(a).tolist()) <= {0, 1} and n > 2):
        return sorted(int(i) for i in numpy.nonzero(a)[0])
    return sorted(int(i) for i in a.tolist())


def run_coding(k, mask_set, t, as_int):
    n = 4 ** k
    m = numpy.zeros(n, dtype=int if as_int else bool)
    for v in mask_set:
        m[v] = 1
    keep = m.copy()
    r = impl.call(dsw.connect_coding_graph, k, m, t, _budget=6 * n + 24, _alarm=120)
    res = {"out": outcome(r), "verts": [], "live": [], "unchanged": bool(numpy.array_equal(m, keep) and m.dtype == keep.dtype)}
    if r["out"] == "ok":
        try:
            v, acc = r["value"]
            res["verts"] = verts_of(v, n)
            res["live"] = impl.live_of(acc)
            res["acc_ok"] = bool(all(acc[u][j] in (-1, (4 * u + j) % n) for u in range(n) for j in range(4)))
        except Exception as e:  # noqa
            res["out"] = "bad-return-shape"
    return res


def run_twin(k, mask_set, t):
    n = 4 ** k
    m = numpy.zeros(n, dtype=bool)
    for v in mask_set:
        m[v] = True
    if not mask_set:
        return None
    r = impl.call(dsw.connect_valid_graph, k, m)
    if r["out"] != "ok":
        return None
    lm = dsw.accessor_to_latter_map(r["value"])
    r2 = impl.call(dsw.latter_map_to_accessor, lm, k, threshold=t, _budget=6 * n + 24)
    return impl.live_of(r2["value"]) if r2["out"] == "ok" else "failed:" + outcome(r2)


def live_of_set(R, n):
    S = set(R)
    return [[j for j in range(4) if (4 * v + j) % n in S] if v in S else [] for v in range(n)]     # transport of TLC's set R


def _replay_one(rec):
    mask, t, R = rec["m"], rec["t"], rec["r"]
    bad = []
    want_live = live_of_set(R, N2)
    for as_int in (False, True):
        g = run_coding(2, mask, t, as_int)
        if not R:
            if g["out"] == "ok":
                bad.append(("graph-returned-where-none-exists", "ValueError", {"verts": g["verts"]}))
            elif g["out"] != "ValueError":
                bad.append(("wrong-exception-type", "ValueError", g["out"]))
        else:
            if g["out"] != "ok":
                bad.append(("error-on-non-empty-graph", {"retained": R}, g["out"]))
            else:
                if g["live"] != want_live:
                    bad.append(("not-the-largest-closed-subgraph", {"retained": R}, {"live": g["live"]}))
                if g["verts"] != R:
                    bad.append(("vertex-description", R, g["verts"]))
        if not g["unchanged"]:
            bad.append(("input-mask-modified", "unchanged", "changed"))
        if bad:
            break
    if t >= 2 and mask:
        tw = run_twin(2, mask, t)
        if tw != want_live:
            bad.append(("latter-map-twin-differs", {"retained": R}, tw))
    return bad


def long_tail_mask(rng, k, length):
    """A mask whose induced graph is one information-free 2-cycle with a tail of `length` out-degree-1 vertices leading into it
    (built backwards: each new vertex has exactly one arc into the part built so far and nothing points back at it)."""
    N = 4 ** k
    a = sum((0 if i % 2 == 0 else 1) * 4 ** (k - 1 - i) for i in range(k))      # ACAC...
    b = sum((1 if i % 2 == 0 else 0) * 4 ** (k - 1 - i) for i in range(k))      # CACA...
    S, head = {a, b}, a
    succ = lambda v: [(4 * v + j) % N for j in range(4)]
    pred = lambda v: [v // 4 + f * (N // 4) for f in range(4)]
    for _ in range(length):
        cands = [p for p in pred(head) if p not in S and sum(1 for x in succ(p) if x in S) == 1 and not any(x in S for x in pred(p))]
        if not cands:
            break
        head = rng.choice(cands)
        S.add(head)
    return sorted(S)


def record(rng, n, tail=None):
    cases = []
    if tail:
        k, length = tail
        m = long_tail_mask(rng, k, length)
        g = run_coding(k, m, 1, as_int=False)
        cases.append({"kind": "coding", "k": k, "mask": m, "t": 1, "out": g["out"], "verts": g["verts"], "live": g["live"], "twin": [], "sup": 0,
                      "unchanged": g["unchanged"], "twin_note": ""})
    for i in range(n):
        k = rng.choice([3, 3, 4, 4, 5])
        N = 4 ** k
        dens = rng.choice([0.3, 0.5, 0.7, 0.85, 0.95])
        mask = sorted(v for v in range(N) if rng.random() < dens)
        t = rng.choice([1, 1, 2, 2, 3, 4])
        sup = 0
        chain = [mask]
        for _ in range(2):
            sub = [v for v in chain[-1] if rng.random() < 0.93]
            chain.append(sub)
        for m in chain:
            g = run_coding(k, m, t, as_int=(i % 2 == 1))
            tw = run_twin(k, m, t) if t >= 2 else None
            c = {"kind": "coding", "k": k, "mask": m, "t": t, "out": g["out"], "verts": g["verts"], "live": g["live"],
                 "twin": tw if isinstance(tw, list) else [], "sup": sup, "unchanged": g["unchanged"], "twin_note": tw if isinstance(tw, str) else ""}
            cases.append(c)
            sup = len(cases)
    # dense order-3 masks at thresholds 2 and 3: vertices that lose several successors in one round while a predecessor sits just
    # above the threshold (an incremental re-count that is off by one only shows here; order 2 is too small for it)
    for i in range(50 * n):
        dens = [0.6, 0.7, 0.8, 0.9][i % 4]
        mask = sorted(v for v in range(64) if rng.random() < dens)
        t = 2 + (i // 4) % 2
        g = run_coding(3, mask, t, as_int=(i % 2 == 1))
        tw = run_twin(3, mask, t)
        cases.append({"kind": "coding", "k": 3, "mask": mask, "t": t, "out": g["out"], "verts": g["verts"], "live": g["live"],
                      "twin": tw if isinstance(tw, list) else [], "sup": 0, "unchanged": g["unchanged"], "twin_note": tw if isinstance(tw, str) else ""})
    return cases


def run(ctx):
    ctx.tlc("MC_Generate", "MC_Generate_witness.cfg", expect_violation=True, workers=16, heap="8g")
    ctx.tlc("MC_Generate", "MC_Generate_order1.cfg", workers=4)
    ctx.tlc("MC_Generate", "MC_Generate_live.cfg", workers=8, timeout=900)      # <>(done or error) under WF(Next), every order-2 mask

    r = ctx.tlc("MC_Generate", "MC_Generate_%s.cfg" % ctx.tier, workers=16, timeout=3400, heap="14g")
    recs = r.records
    if len(recs) != 262144:
        raise Machinery("expected 262144 exported (mask, t) pairs, got %d" % len(recs))
    ctx.exhaustive = True
    res = impl.pmap(_replay_one, recs, chunk=512)
    for rec, bad in zip(recs, res):
        ctx.judged()
        if rec["r"]:
            ctx.mark("A%s:%d" % (",".join(map(str, rec["m"])), rec["t"]))
        for clause, exp, obs in bad:
            ctx.violation(clause, {"k": 2, "mask": rec["m"], "t": rec["t"]}, exp, impl.jsonable(obs))
    ctx.sample({"flow": "A", "record": [x for x in recs if x["t"] == 1 and x["r"] and len(x["r"]) < len(x["m"])][1000]})
    rng = random.Random(ctx.seed * 2147483629 % (2 ** 31) + 3)
    cases = record(rng, 40 if ctx.quick else 400, tail=(7, 1300) if ctx.quick else (8, 2500))
    path = os.path.join(ctx.workdir, "c03_trace.json")
    with open(path, "w") as f:
        json.dump({"cases": cases}, f)
    r = ctx.tlc("Trace_Generate", "Trace.cfg", env={"TRACE_FILE": path}, workers=16, timeout=3400, heap="12g")
    got = {x["cid"]: x["verdict"] for x in r.records if "verdict" in x}
    if len(got) != len(cases):
        raise Machinery("trace validation returned %d verdicts for %d cases" % (len(got), len(cases)))
    for i, c in enumerate(cases, 1):
        ctx.judged()
        if c["verts"]:
            ctx.mark("B%d:%s:%d" % (c["k"], ",".join(map(str, c["mask"])), c["t"]))
        small = {"k": c["k"], "t": c["t"], "mask": c["mask"] if c["k"] <= 3 else "order %d, %d vertices (seeded)" % (c["k"], len(c["mask"])),
                 "out": c["out"]}
        if got[i] != "ok":
            ctx.violation(got[i].split(":", 1)[1], small, "ok", got[i])
        if not c["unchanged"]:
            ctx.violation("input-mask-modified", small, "unchanged", "changed")
        if c["twin_note"]:
            ctx.violation("latter-map-twin-differs", small, "accessor", c["twin_note"])
    ctx.sample({"flow": "B", "case": {"k": cases[0]["k"], "t": cases[0]["t"], "mask_size": len(cases[0]["mask"]),
                                      "retained": len(cases[0]["verts"]), "out": cases[0]["out"]}, "verdict": got[1]})
    # growth of the specification (conformance tier, never a verdict): remove_useless as a public function on arbitrary latter maps
    rr = ctx.tlc("MC_RemoveUseless", "MC_RemoveUseless.cfg", workers=8, timeout=600)
    ndiv = 0
    for rec in rr.records:
        lm = {v: list(x[1]) for v, x in enumerate(rec["lm"]) if x[0]}
        want = {v: sorted(x[1]) for v, x in enumerate(rec["res"]) if x[0]}
        o = impl.call(dsw.remove_useless, {k: list(v) for k, v in lm.items()}, rec["t"], _budget=16)
        got = {int(k): sorted(int(y) for y in v) for k, v in o["value"].items()} if o["out"] == "ok" else outcome(o)
        if got != want:
            ndiv += 1
            ctx.divergence("conformance:remove_useless", {"lm": lm, "t": rec["t"], "want": want, "got": got})
    ctx.notes["remove_useless_public"] = {"cases": len(rr.records), "divergences": ndiv}
    ctx.assumptions += ["masks are boolean or 0/1 integer numpy arrays"]
    return {"scope": {"order2_pairs": len(recs), "flowB_cases": len(cases)}}


def replay(ctx, v):
    c = v["case"]
    if isinstance(c.get("mask"), list):
        g = run_coding(c["k"], c["mask"], c["t"], False)
        print("replay: connect_coding_graph(k=%d, mask=%s, t=%d) -> %s verts=%s" % (c["k"], c["mask"], c["t"], g["out"], g["verts"]))
        print("        live:", g["live"])
    print("expected:", json.dumps(v["expected"])[:800])
    return 1
