"""C19 - arc removal keeps both graph views in step over any call sequence."""
import json
import os
import random

import numpy

import dsw
from vlib import codingflow as cf
from vlib import impl
from vlib.core import Machinery

RULE = ("TLC explores every tie-break history of arc removal to exhaustion on the complete order-1 graphs over {A,C}, {A,C,G}, "
        "{A,C,G,T} (and the GC-balanced order-2 graph, thorough) for all four flag combinations, with ViewsAgree, WellFormed, "
        "ScoresShape as invariants and ArcStep as action property, and exports every reachable state. Flow A: from every exported "
        "state one real calculate_intersection_score + remove_nasty_arc call is made and judged by Trace_ArcRemoval from the state "
        "before the call. Flow B: seeded generated graphs of orders 2..4, all flag combinations, calls repeated on the same objects "
        "until the first call that raises; every step is judged. Distinct non-trivial = distinct (graph state, flags) with >= 2 arcs.")

MINE = {"scores-shape", "positive-score-off-arc", "score-function", "removed-arc-did-not-exist", "removed-arc-not-maximal",
        "accessor-changed-elsewhere", "latter-map-changed-elsewhere", "not-exactly-one-arc", "views-disagree"}


def lmap_pairs(lm):
    return [[int(k), [int(x) for x in v]] for k, v in lm.items()]


def scores_of(k, live, ins, dele):
    acc = impl.accessor(live)
    rs = impl.call(dsw.calculate_intersection_score, dsw.accessor_to_latter_map(acc), observed_length=k, has_insertion=ins, has_deletion=dele)
    return impl.jsonable(rs["value"]) if rs["out"] == "ok" else []


def one_step(k, acc, lm, ins, dele, iteration=0, defer_scores=False):
    """One recorded step on the shared objects acc / lm (modified in place by the library). With defer_scores the score matrix of
    the state before the call is not asked for here (nothing touches the shared objects between two removal calls); the caller
    fills it in afterwards from fresh objects (scores_of)."""
    live = impl.live_of(acc)
    if defer_scores:
        scores = []
    else:
        rs = impl.call(dsw.calculate_intersection_score, lm, observed_length=k, has_insertion=ins, has_deletion=dele)
        scores = impl.jsonable(rs["value"]) if rs["out"] == "ok" else []
    r = impl.call(dsw.remove_nasty_arc, acc, lm, iteration=iteration, has_insertion=ins, has_deletion=dele, _alarm=60)
    c = {"k": k, "live": live, "ins": bool(ins), "del": bool(dele), "scores": scores, "out": cf.outcome(r), "removed": [0, 0],
         "acc_after": [], "lmap_after": [], "dup": False}
    if r["out"] == "ok":
        try:
            a2, lm2, arc, _ = r["value"]
            c["removed"] = [int(arc[0]), int(arc[1])]
            c["acc_after"] = impl.acc_list(a2)
            c["lmap_after"] = lmap_pairs(lm2)
            c["same_objects"] = bool(a2 is acc and lm2 is lm)
        except Exception:  # noqa
            c["out"] = "bad-return-shape"
    return c, (r["value"][0], r["value"][1]) if c["out"] == "ok" else (None, None)


def _from_state(rec):
    acc = impl.accessor(rec["live"])
    lm = dsw.accessor_to_latter_map(acc)
    if sum(len(L) for L in rec["live"]) % 2:
        lm = {int(a): [int(x) for x in reversed(list(b))] for a, b in lm.items()}      # the same graph as a caller would write it down
    c, _ = one_step(rec["k"], acc, lm, rec["ins"], rec["del"])
    return c


def validate(ctx, cases, name, chunk=50000):
    """Trace_ArcRemoval over the cases, in chunks (each TLC worker deserialises the trace file; a 300 MB file does not fit 16 times)."""
    got = {}
    for lo in range(0, len(cases), chunk):
        part = cases[lo:lo + chunk]
        path = os.path.join(ctx.workdir, "%s.%d" % (name, lo // chunk))
        with open(path, "w") as f:
            json.dump({"cases": part}, f)
        r = ctx.tlc("Trace_ArcRemoval", "Trace.cfg", env={"TRACE_FILE": path}, workers=16, timeout=3400, heap="12g")
        os.remove(path)
        sub = {x["cid"]: x["verdict"] for x in r.records if "verdict" in x}
        if len(sub) != len(part):
            raise Machinery("trace validation returned %d verdicts for %d cases" % (len(sub), len(part)))
        for i, v in sub.items():
            got[lo + i] = v
    return got


def report(ctx, cases, got, tag):
    returned = 0
    for i, c in enumerate(cases, 1):
        ctx.judged()
        if c["out"] == "ok":
            returned += 1
        if sum(len(x) for x in c["live"]) >= 2:
            ctx.mark(tag + json.dumps([c["live"], c["ins"], c["del"]]))
        for cl in got[i]:
            if cl in MINE:
                small = {"k": c["k"], "live": c["live"] if c["k"] <= 2 else "order %d (seeded)" % c["k"], "ins": c["ins"], "del": c["del"],
                         "out": c["out"], "removed": c["removed"]}
                ctx.violation(cl, small, "ok", cl)
    return returned


def histories(rng, n, maxsteps):
    cases = []
    for i in range(n):
        k = rng.choice([2, 2, 3, 3, 4])
        live = cf.generated_live(rng, k, t=rng.choice([1, 2, 2, 3]))
        if i % 3 == 2:
            # a state deep inside a trimming history, entered directly: an arbitrary arc subset of order 3 with dead-end vertices that
            # predecessors still point to (the searches behind the scores run into them at every depth)
            k = 3
            live = cf.random_live(rng, 3, rng.choice([0.3, 0.45, 0.6]))
        if not live:
            continue
        if k == 4:   # keep the order-4 histories affordable for TLC
            maxs = min(maxsteps, 6)
        else:
            maxs = maxsteps
        acc = impl.accessor(live)
        lm = dsw.accessor_to_latter_map(acc)
        if i % 4 >= 2:          # a caller-written latter map: plain ints, successor lists in arbitrary order
            user = {}
            for a in lm:
                vs = [int(x) for x in lm[a]]
                rng.shuffle(vs)
                user[int(a)] = vs
            lm = user
        ins, dele = [(True, True), (True, False), (False, True), (False, False)][(i // 2) % 4]
        # every second history is an uninterrupted trimming loop as the experiments run it: round numbers 1, 2, ... are passed, the
        # flags stay the same and nothing else is called on the shared objects between two rounds
        loop = i % 2 == 1
        mine = []
        for step in range(maxs):
            if not loop and rng.random() < 0.15:
                ins, dele = rng.choice([True, False]), rng.choice([True, False])
            c, (a2, l2) = one_step(k, acc, lm, ins, dele, iteration=(step + 1 if loop else 0), defer_scores=loop)
            mine.append(c)
            if c["out"] != "ok":
                break
            acc, lm = a2, l2            # the objects handed back are used for the next call
        if loop:
            for c in mine:
                c["scores"] = scores_of(c["k"], c["live"], c["ins"], c["del"])
        cases += mine
    return cases


def run(ctx):
    ctx.tlc("MC_ArcRemoval", "MC_ArcRemoval_witness.cfg", expect_violation=True, workers=8)
    recs = []
    for cfg in (["MC_ArcRemoval_quick.cfg"] if ctx.quick else ["MC_ArcRemoval_quick.cfg", "MC_ArcRemoval_order2.cfg"]):
        r = ctx.tlc("MC_ArcRemoval", cfg, workers=16, timeout=3400, heap="14g")
        recs += r.records
    if len(recs) < 100000:
        raise Machinery("too few exported states: %d" % len(recs))
    ctx.exhaustive = True
    # Flow A: one real call from every reachable state (quick: a seed-chosen quarter of them, all states of the small graphs)
    rng = random.Random(ctx.seed * 39916801 % (2 ** 31) + 19)
    if ctx.quick:
        recs_a = [x for x in recs if sum(len(l) for l in x["live"]) <= 9 or rng.random() < 0.2]
    else:
        recs_a = recs
    cases = impl.pmap(_from_state, recs_a, chunk=256)
    got = validate(ctx, cases, "c19_a.json")
    ret_a = report(ctx, cases, got, "A")
    ctx.sample({"flow": "A", "state": {k: recs_a[1000][k] for k in ("live", "ins", "del", "max", "allowed")},
                "call": {k: cases[1000][k] for k in ("out", "removed")}, "verdict": got[1001]})
    # Flow B: call sequences on shared objects
    cases_b = histories(rng, 24 if ctx.quick else 200, 40)
    got_b = validate(ctx, cases_b, "c19_b.json")
    ret_b = report(ctx, cases_b, got_b, "B")
    ctx.sample({"flow": "B", "steps": len(cases_b), "first": {k: cases_b[0][k] for k in ("k", "ins", "del", "out", "removed")}, "verdict": got_b[1]})
    ctx.notes["returning_calls_judged"] = ret_a + ret_b
    if ret_a + ret_b == 0:
        # the property speaks about calls that return; if none does (on graphs that have arcs) it holds vacuously and this run decided nothing
        raise Machinery("vacuous run: none of %d remove_nasty_arc calls on graphs with arcs returned - C19 cannot be evaluated on this tree"
                        % (len(cases) + len(cases_b)))
    ctx.assumptions += ["the intersection score is the function transcribed in Score.tla from the pinned calculate_intersection_score "
                        "(leaf sets by breadth-first layers; substitution, insertion, deletion terms)",
                        "calls that raise are outside the property and are only used to end a history"]
    return {"scope": {"mc_states": len(recs), "flowA_calls": len(cases), "flowB_steps": len(cases_b)}}


def replay(ctx, v):
    c = v["case"]
    if isinstance(c.get("live"), list):
        acc = impl.accessor(c["live"])
        lm = dsw.accessor_to_latter_map(acc)
        cc, _ = one_step(c["k"], acc, lm, c["ins"], c["del"])
        print("replay:", {k: cc[k] for k in ("out", "removed")}, "lmap_after", cc["lmap_after"])
        got = validate(ctx, [cc], "replay.json")
        print("verdict:", got[1])
        return 0 if got[1] == ["ok"] else 1
    print(json.dumps(v, indent=1)[:1200])
    return 1
