"""Generates /verif/MANIFEST.json from the table below (python -m vlib.manifest)."""
import json
import os
import subprocess

ROOT = os.path.dirname(os.path.dirname(os.path.abspath(__file__)))

TRUST = ("TLC explores the stated finite scopes exhaustively; the Python harness only transports values and compares for "
         "equality with TLC-computed expectations; conformance of the code to the specification is established on the "
         "enumerated and seeded cases, not for all inputs.")

P = {
    "C17": dict(
        spec="Capacity, MC_Capacity",
        text="Floating-point power iteration is not a TLA+ object; the specification is the exact integer model behind it (walk counts, "
             "rational estimates, regularity, single primitive cyclic component, Birkhoff gap certificate with limb products, "
             "Collatz-Wielandt interval with monotonicity as action properties), run by TLC as a state machine on 4096 (65 536) order-1 "
             "arc subsets and on seeded graphs of orders 2..3; approximate_capacity is judged against the facts TLC derives: <= 2 bits "
             "in every mode, 0.0 on arc-less graphs, exactly log2 d on d-regular graphs, and inside the certified interval +/- 1e-4 for "
             "random starts (repeats 2, 3, 5) and for the deterministic mode on every graph TLC certifies to be in the property's class.",
        tech="TLC model checking of an exact integer walk-count model with spectral certificates + comparison of the real function with TLC-derived bounds",
        note="Accuracy is decided only against the certified Collatz-Wielandt interval after 13 exact steps (sound at any width, sharp when "
             "tight) and only for graphs of order <= 3 that the Birkhoff certificate places in the property's class; IEEE arithmetic "
             "itself is outside TLA+. " + TRUST,
        ref="5/C17"),
    "C20": dict(
        spec="Library, Trace_Library",
        text="Library.tla is the API grain: a workspace of shared objects, one action per public function, the Frame action property "
             "(only arc removal changes its own arguments) and call signatures that exclude the verbose flag and the history; "
             "`tlc -simulate` generates call sequences that are executed on real shared objects with bit-level digests of every "
             "workspace object around every call; returned values are overwritten by the caller afterwards (a cache handing out the "
             "same object is then visible); every distinct signature is also run in a newly started interpreter; the trace spec "
             "consumes the log event by event against a memo table seeded with the fresh-interpreter results.",
        tech="TLA+ API-level specification driving tlc -simulate call sequences + event-by-event trace validation (frame and memo conditions)",
        ref="5/C20"),
    "C19": dict(
        spec="Score, MC_ArcRemoval, Trace_ArcRemoval",
        text="calculate_intersection_score is transcribed (leaf sets by breadth-first layers; substitution, insertion, deletion "
             "terms) and remove_nasty_arc is a history machine whose two views are separate variables updated as the code updates "
             "them; TLC explores every tie-break history to exhaustion on the complete order-1 graphs (and the GC-balanced order-2 "
             "graph, thorough) for all flag combinations with ViewsAgree / WellFormed / ScoresShape / ArcStep; from every reachable "
             "state one real call is made, and seeded call sequences on shared objects (orders 2..4) are run until the first call that "
             "raises; every returning call is judged by the trace spec from the state before it.",
        tech="TLC exhaustive exploration of removal histories + one real call from every reachable state + trace validation of call sequences",
        ref="5/C19"),
    "C01": dict(
        spec="Coding, BigNat, VT, MC_Coding, Trace_Coding",
        text="Encoder and decoder are step machines (one action per loop iteration, both modes, shuffles, limb arithmetic); TLC runs "
             "encode -> check -> decode on every order-1 graph of the pattern family x start satisfying the precondition x tables x "
             "messages up to 3 (4) bits x modes x check lengths with RoundTrip / EncTotal as invariants; every exported behaviour is "
             "replayed (decode(encode(m)) = m, no exception); seeded graphs of orders 2..5, messages to 4096 bits, random tables and "
             "checks to length 64 are recorded from the code, the precondition decided and the round trip judged by the trace spec.",
        tech="TLC model checking of encode/decode step machines + replay of all exported behaviours + trace validation",
        ref="5/C01"),
    "C02": dict(
        spec="Filter, Generate, Coding, MC_Pipe, MC_CtorScope, Trace_Pipe",
        text="The pipeline filter -> vertices -> coding graph -> encode is one TLC machine with EveryWindowValid, OnlyRetained, "
             "VertexIsWindow and LocalToGlobal as invariants (built-in order-2/3 configurations and arbitrary vertex sets as user "
             "predicates x t x retained starts x messages x modes; the premise-free twin yields the D8 counterexample); the real "
             "pipeline is run on every exported input, the real filter is asked about every window of start k-mer + strand and about "
             "the whole strand, and the record is judged by the trace spec; the constructor clause is judged on every configuration "
             "TLC classifies; seeded realistic filters of orders 3..5 in Flow B.",
        tech="TLC model checking of the composed pipeline machine + observation of the real pipeline judged by a TLC trace spec",
        ref="5/C02"),
    "C03": dict(
        spec="Generate, MC_Generate, Trace_Generate",
        text="Trimming is a round-per-action machine with the declarative largest-closed-subset beside it; TLC checks closedness, the "
             "Removed action property, error-iff-empty, the latter-map twin, brute-force maximality (small masks) and single-vertex "
             "monotonicity on all 65 536 order-2 masks x t = 1..4 and exports the retained sets; all 262 144 pairs are replayed into "
             "connect_coding_graph (bool and int masks; outcome class, accessor, vertex description, input unchanged, "
             "latter_map_to_accessor(threshold)); seeded masks of orders 3..5 with nested sub-masks are judged by the trace spec.",
        tech="TLC exhaustive model checking of the trimming machine + exhaustive replay + trace validation",
        ref="5/C03"),
    "C04": dict(
        spec="Generate, Coding, MC_Pipe (incl. liveness cfg), Trace_Pipe",
        text="On the composed machine TLC checks EncTotal, WalkInv, the step bound L*|V|, LastIsBranching, TightNormal (radix product "
             "before the last step <= value; <= L nucleotides for t >= 2; <= ceil(L/2) on complete graphs) and TightFast, plus "
             "termination under weak fairness on order 1; the real encoder runs on every exported input under a tick budget taken "
             "from the specification (exceeding it is the verdict, not a timeout) and the recorded strand is judged by the trace "
             "spec with limb arithmetic; seeded generated graphs of orders 3..5 with messages to 1024 bits in Flow B.",
        tech="TLC model checking with bounded-termination invariants and a fairness cross-check + tick-budgeted execution judged by a TLC trace spec",
        ref="5/C04"),
    "C05": dict(
        spec="Coding (DocScheme), MC_Coding, MC_Decode, Trace_Coding, Ind_Mix",
        text="The published scheme is stated declaratively (little-endian mixed radix over the out-degrees met, table rank, bit pairs "
             "in fast mode) and TLC checks that the operational encoder satisfies it (DocHolds, DecValue, WalkValue, FastValue); the "
             "verdict on the code is exact strand/check equality with the specification's encoder on every exported behaviour, and "
             "exact decoded bits on every enumerated walk (not only encodings); seeded long messages re-computed by TLC with limbs; "
             "the arithmetic core is inductive for unbounded values (Apalache).",
        tech="TLC model checking of operational vs declarative scheme + exact replay + trace validation + Apalache lemma",
        ref="5/C05"),
    "C06": dict(
        spec="Coding (decoder outcomes), MC_Decode, Trace_Coding",
        text="The decoder machine has explicit outcomes; TLC checks AcceptIffWalk on every string up to 3 (4) over {A,C,G,T,foreign} x "
             "graphs with dead ends and every out-degree x starts x modes x check variants and exports outcome and bits; decode must "
             "return exactly those bits or raise ValueError and nothing else; fast mode is judged only inside the property's scope, "
             "decided by TLC; corrupted walks and random strings on orders 2..5 are judged by the trace spec.",
        tech="TLC model checking of decoder outcomes + replay of all exported cases + trace validation",
        ref="5/C06"),
    "C13": dict(
        spec="DeBruijn, MC_DeBruijn, Trace_DeBruijn",
        text="TLC checks the index/k-mer/shift-append statements for every vertex of every order up to 6 (7 thorough) on the "
             "specification, exports the tables, and the real helpers are replayed against them exhaustively; seeded larger "
             "orders and every accessor the builders/converters return are recorded from the code and judged by the trace spec.",
        tech="TLC exhaustive model checking of DeBruijn.tla + spec->code replay of exported tables + code->spec trace validation",
        ref="5/C13"),
    "C07": dict(
        spec="VT, MC_VT, Trace_VT",
        text="The documented check (VTDoc, by digit extraction) and the code's formula are both in the specification; TLC checks "
             "length, agreement, definedness on the empty strand and that every single substitution / C,G,T indel changes the "
             "check for every strand up to 6 (8) x n up to 4 (5); set_vt is compared with every exported value, decode on a "
             "complete graph must reject every exported neighbour under the original check; seeded strands to 400 nt with n up "
             "to 64 and their edits are recorded from the code and judged by the trace spec.",
        tech="TLC model checking of VT.tla + exhaustive replay into set_vt/decode + trace validation of long strands",
        ref="5/C07"),
    "C08": dict(
        spec="Repair, MC_Repair, Trace_Repair",
        text="repair_dna/path_matching are transcribed operationally (scan step per action with Python slice semantics, k-state "
             "look-back, saturation substitution/insertion/deletion, product, check filter); TLC checks Recovers and DetectsIffNotWalk "
             "on every walk of the scope's generated graphs x every admissible single edit (pairs thorough); every exported case is "
             "replayed: a result equal to the machine's inherits TLC's verdict, a differing one is judged on its own from the recorded "
             "output; seeded 40..200 nt walks with 1..4 spaced edits on orders 2..4 are judged by the trace spec, which also decides "
             "admissibility.",
        tech="TLC model checking of the repair machine + replay of all exported cases + trace validation of recorded calls",
        ref="5/C08"),
    "C09": dict(
        spec="Repair, MC_Repair, Trace_Repair",
        text="CleanLeftAlone, SortedUnique and CheckConsistent are invariants of the repair machine over every A/C/G/T string of "
             "length k..5 (7) x graphs x starts x check variants x indel x heap limits; replay as in C08; the shape predicates are "
             "evaluated by TLC on the recorded output, so they hold or fail regardless of how the candidates were produced.",
        tech="TLC model checking of the repair machine + replay + trace validation of recorded outputs",
        ref="5/C09"),
    "C10": dict(
        spec="Repair, MC_Repair, Trace_Repair",
        text="Termination is safety here: ScanAdvances (action property), TickBound (<= n scan iterations) and LookupBound hold for "
             "every string of the scope; repair_dna runs under a scan-tick budget of n taken from the specification, so a loop that "
             "no longer advances is a finite, replayable verdict; well-formed result, no exception, look-up counter inside the "
             "polynomial bound, errors at the first nucleotide / last window / everywhere included.",
        tech="TLC bounded-termination invariants and action property + tick-budgeted execution + trace validation",
        ref="5/C10"),
    "C11": dict(
        spec="Generate, Filter, MC_Find, Trace_Generate",
        text="FindVertices and the vertex-induced valid graph are defined in the specification; TLC enumerates order-2 vertex sets as "
             "arbitrary user predicates and built-in configurations for k = 1..3 (4), checks the defining equivalences and exports "
             "marked sets and graphs; find_vertices is run with user-defined filters written against the documented "
             "valid(self, dna_string) interface and with LocalBioFilter, connect_valid_graph with bool and int masks; ValueError "
             "exactly on empty sets; seeded filters/masks of orders 3..6 judged by the trace spec.",
        tech="TLC model checking + replay into find_vertices/connect_valid_graph + trace validation",
        ref="5/C11"),
    "C12": dict(
        spec="Filter, MC_Filter, Trace_Filter",
        text="LocalBioFilter.valid is transcribed clause by clause (alphabet, run, motif and reverse complement, windowed GC with "
             "rational bounds, short-string rule); TLC checks the last-window, window-conjunction, reverse-complement and "
             "sub-string theorems for every string up to 4 (5) over {A,C,G,T,foreign} x 320 (240) configurations and exports both "
             "verdicts, each replayed into a real filter object; seeded windows 5..12 with literature motifs and strings to 200 "
             "plus constructor acceptance are recorded from the code and judged by the trace spec.",
        tech="TLC model checking of Filter.tla + exhaustive replay into LocalBioFilter + trace validation",
        ref="5/C12"),
    "C14": dict(
        spec="Views, MC_Views, Trace_Views",
        text="Accessor, latter map and adjacency matrix are derived views of one arc subset in Views.tla; TLC checks round trips, "
             "contents and that both leaf queries equal the multiset of end points of d-step walks (against walk counts) on 4096 "
             "(all 65536) order-1 arc subsets and exports every view; the real conversions/queries are replayed on each; seeded "
             "arbitrary arc subsets of orders 1..6 and matrices with an illegal arc are recorded from the code and judged by the "
             "trace spec (ValueError iff some arc is not a shift).",
        tech="TLC model checking of Views.tla + exhaustive replay + trace validation",
        ref="5/C14"),
    "C18": dict(
        spec="Coding (DigitToArc/ArcToDigit), MC_Shuffle, Trace_Shuffle",
        text="For all 24 rows x 15 live-arc patterns TLC checks that digit -> arc is a bijection with ArcToDigit as inverse and exports "
             "1056 first-step experiments for both modes; the real encoder must emit the exported arc/strand and decode must invert "
             "it; create_random_shuffles is exercised in seeded call histories (k = 1..6, repeated seeds, interleaved with other users "
             "of the global random state) whose log is judged by the trace spec: shape, same seed same table, earlier results untouched.",
        tech="TLC exhaustive check of the per-row bijection + replay of first-step experiments + trace validation of call histories",
        ref="5/C18"),
    "C15": dict(
        spec="Bignum, MC_Bignum, Trace_Bignum, Ind_Mul, Ind_Div, Ind_Add",
        text="The four decimal-string helpers are transcribed as digit-serial machines shaped like the code; TLC steps them one "
             "loop iteration per action for every canonical string up to 3 (4 thorough) digits x operand 0..9, checking the "
             "carry/remainder refinement in every intermediate state and exactness at the end; every exported behaviour is "
             "replayed into calculus_*; seeded strings up to 1300 digits (carry and borrow chains) recorded from the code are "
             "re-computed by the machines; the multiply/divide/add steps are additionally inductive for unbounded values (Apalache).",
        tech="TLC model checking of digit-serial machines + exhaustive replay + trace validation of long inputs + Apalache inductive step lemmas",
        ref="5/C15"),
    "C16": dict(
        spec="Bignum (conversions), MC_Conv, Trace_Bignum",
        text="TLC checks on the machine-built conversions that the string and int paths agree, that rendering and parsing are "
             "inverse and that wider renderings are left-padded, for every bit sequence up to 10 (14) and DNA string up to 6 (8); "
             "all exported values are replayed into the four conversion functions (lists and numpy arrays, both paths); seeded "
             "sequences to 4096 bits / 2048 nt recorded from the code are judged by the trace spec.",
        tech="TLC model checking of conversion operators + exhaustive replay + trace validation of long inputs",
        ref="5/C16"),
}

# later growth (liveness forms, call histories in the conformance flows), appended to the texts above
EXTRA = {
    "C03": " The temporal form (Termination: trimming always ends, under weak fairness) is checked by TLC for every order-2 mask x threshold.",
    "C10": " The temporal form (Termination = <>Done under weak fairness) is checked by TLC next to the safety form (ScanAdvances, TickBound).",
    "C17": " The estimation machine's Termination (<> final phase, weak fairness) is checked by TLC on the enumerated arc subsets.",
    "C08": " Replayed calls of one worker share one accessor object per graph and half of them follow a repair of the same strand with the "
           "other has_indel setting; the scope includes a self-loop graph with late-surfacing errors and walks with two spaced edits.",
    "C19": " Half of the recorded histories are uninterrupted trimming loops (round numbers passed, nothing else touches the shared objects), "
           "a third start from arbitrary order-3 arc subsets with dead ends, and half use caller-written latter maps.",
    "C11": " User-defined filters include one returning numpy.bool_ and one derived from LocalBioFilter; masks are bool, 0/1 and weighted ints.",
    "C20": " Workspaces include arbitrary arc subsets with dead ends and defaultdict latter maps; seeds include 0.",
    "C12": " Foreign symbols are also rendered as line feed, blank, tab, lower case, NUL and full-width letters.",
    "C05": " Decode calls draw the type of bit_length and of the start vertex (Python int, numpy signed / unsigned) from the case.",
}
for _k, _v in EXTRA.items():
    P[_k]["text"] += _v

NOT_YET = "check not built yet in this round (work in progress; see DESIGN.md section 5 for the planned procedure)"


def build():
    ids = ["C%02d" % i for i in range(1, 21)]
    try:
        commits = subprocess.check_output(["git", "-C", "/repo", "log", "--format=%h %s", "5abc2eb..HEAD"]).decode().splitlines()
    except Exception:
        commits = []
    hooks = [c.split()[0] for c in commits if "verification tick hooks" in c]
    checks, na = [], []
    for pid in ids:
        if pid not in P:
            na.append({"property_id": pid, "reason": NOT_YET})
            continue
        d = P[pid]
        checks.append({
            "property_id": pid,
            "quick_cmd": "./check %s --tier quick" % pid,
            "thorough_cmd": "./check %s --tier thorough" % pid,
            "evidence_file": "evidence/%s.json" % pid,
            "replay_cmd_template": "./check %s --replay {path}" % pid,
            "engine": "tlc+py-harness",
            "level_claimed": {"category": "model_checking", "text": d["text"], "design_ref": d["ref"]},
            "level_note": d.get("note", TRUST),
            "technique": d["tech"],
        })
    m = {
        "version": 1,
        "setup_cmd": "./check setup",
        "hooks": {
            "guard": "DSW_VERIF",
            "enable": "DSW_VERIF=1 in the environment (set by ./check); Python needs no build, checks import dsw from /repo's working tree",
            "baseline_off_cmd": "cd /repo && env -u DSW_VERIF /venv/bin/python -m pytest -ra -q -p no:cacheprovider --timeout=900 --continue-on-collection-errors",
            "source_commits": hooks,
            "add_only": True,
        },
        "engines": [
            {"name": "tlc-mc", "path": "spec/MC_*.tla", "kind_free_text": "TLC exhaustive model checking of the TLA+ specification inside small scopes",
             "serves_properties": sorted(P)},
            {"name": "tlc-trace", "path": "spec/Trace_*.tla", "kind_free_text": "TLC trace validation: recorded implementation behaviour judged against the specification",
             "serves_properties": sorted(P)},
            {"name": "py-harness", "path": "vlib/", "kind_free_text": "replays TLC-exported behaviours into dsw and records dsw behaviour for TLC; holds no oracle",
             "serves_properties": sorted(P)},
        ],
        "checks": checks,
        "not_applicable": na,
        "notes": "All verdicts come from TLA+ predicates; see DESIGN.md. known_findings.json lists recorded and repaired defects.",
    }
    return m


if __name__ == "__main__":
    m = build()
    with open(os.path.join(ROOT, "MANIFEST.json"), "w") as f:
        json.dump(m, f, indent=1)
    try:
        import jsonschema
        jsonschema.validate(m, json.load(open("/root/.vp/MANIFEST.schema.json")))
        print("MANIFEST valid; %d checks, %d not_applicable" % (len(m["checks"]), len(m["not_applicable"])))
    except ImportError:
        print("written (jsonschema not importable here)")
