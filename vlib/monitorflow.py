"""Flow M - behaviours of spec/Monitor.tla (TLC -simulate, history variable) replayed into dsw.Monitor under a virtual clock.

The clock of dsw.operation (`datetime.now`) is replaced by a counter that the replay advances by the `dt` of each spec step; the
text the object writes to stdout is parsed field by field and compared with the `out` record of the specification.  Growth of the
specification (DESIGN section 11): a disagreement is a conformance divergence of C20, never a verdict."""
import datetime as _dt
import io
import json
import re
from contextlib import redirect_stdout

import dsw.operation as op

LINE = re.compile(r"^\|(█*)( *)\|( *)(\d+)% \(( *)(\d+)/(\d+)\) (wait|used) (\d{4,}):(\d\d):(\d\d)( \(k: 1\))?\.$")


class _Clock(object):
    base = _dt.datetime(2020, 1, 1)
    t = 0

    @classmethod
    def now(cls):
        return cls.base + _dt.timedelta(seconds=cls.t)


_Clock.datetime = _Clock        # a tree that writes `import datetime` / `datetime.datetime.now()` sees the same clock


def observe(monitor, step):
    buf = io.StringIO()
    _Clock.t += step["dt"]
    with redirect_stdout(buf):
        monitor(step["c"], step["t"], {"k": 1} if step["ex"] else None)
    return buf.getvalue()


def compare(step, text):
    """Return None when the text is what the specification's `out` record describes, else the name of the differing field."""
    o = step["out"]
    if not o["printed"]:
        return None if text == "" else "silent-call-printed"
    if not text.startswith("\r"):
        return "carriage-return"
    body, nl = (text[1:-1], True) if text.endswith("\n") else (text[1:], False)
    m = LINE.match(body)
    if not m:
        return "format"
    full, empty, ppad, pct, cpad, cur, tot, label, h, mi, s, suf = m.groups()
    pct = int(pct)
    checks = [("newline", nl == o["newline"]), ("percentage", pct in step["pcts"]), ("bar-width", len(full) + len(empty) == 20),
              ("bar-cells", len(full) == min(20, pct // 5 + 1)), ("percent-padding", len(ppad) == max(0, 3 - len(str(pct)))),
              ("counter", int(cur) == o["cur"] and int(tot) == o["total"]), ("counter-padding", len(cpad) == o["pad"]),
              ("label", label == o["label"]), ("time", (int(h), int(mi), int(s)) == (o["h"], o["m"], o["s"])),
              ("suffix", (suf is not None) == o["suffix"])]
    for name, ok in checks:
        if not ok:
            return name
    return None


def run(ctx, num, depth=8):
    r = ctx.tlc("Monitor", "MC_Monitor_sim.cfg", workers=1, timeout=300, simulate="num=%d" % num, depth=depth + 1, seed=ctx.seed + 5)
    seen, hists = set(), []
    for rec in r.records:
        key = json.dumps(rec["hist"], sort_keys=True)
        if key not in seen and len(rec["hist"]) == depth:
            seen.add(key)
            hists.append(rec["hist"])
    saved = getattr(op, "datetime", None)
    if saved is None:           # the clock is reached some other way in this tree: nothing to bind the virtual clock to
        ctx.notes["monitor_flow"] = {"skipped": "dsw.operation has no name 'datetime' to virtualise"}
        return 0
    steps = bad = 0
    labels = set()
    op.datetime = _Clock
    try:
        for h in hists:
            _Clock.t = 0
            mon = op.Monitor()
            for i, step in enumerate(h):
                try:
                    text = observe(mon, step)
                    why = compare(step, text)
                except Exception as e:  # a raising monitor is a divergence here; C20's own clause judges it inside library calls
                    text, why = repr(e), "raised"
                steps += 1
                labels.add((step["out"].get("label"), step["out"]["printed"]))
                if why:
                    bad += 1
                    ctx.divergence("conformance: Monitor output differs from spec/Monitor.tla in field '%s'" % why,
                                   {"calls": [[x["c"], x["t"], x["ex"], x["dt"]] for x in h[:i + 1]], "text": text[:120],
                                    "expected": step["out"]})
                    break
    finally:
        op.datetime = saved
    ctx.notes["monitor_flow"] = {"histories": len(hists), "calls": steps, "divergent_histories": bad,
                                 "output_kinds_seen": sorted(str(x) for x in labels)}
    return bad
