"""./check <ID> [--tier quick|thorough] [--replay <path>]"""
import argparse
import importlib
import json
import os
import sys
import traceback

from vlib import core, tlc


def main():
    ap = argparse.ArgumentParser()
    ap.add_argument("pid")
    ap.add_argument("--tier", default=os.environ.get("VERIF_TIER") or "quick", choices=["quick", "thorough"])
    ap.add_argument("--replay", default=None)
    a = ap.parse_args()
    seed = int(os.environ.get("VERIF_SEED") or 0)
    if a.pid == "selftest":
        from vlib import selftest
        sys.exit(selftest.main())
    if a.pid == "setup":
        sys.exit(setup())
    mod = importlib.import_module("vlib.props.%s" % a.pid.lower())
    ctx = core.Ctx(a.pid, a.tier, seed)
    try:
        if a.replay:
            with open(a.replay) as f:
                v = json.load(f)
            rc = mod.replay(ctx, v)
            tlc.cleanup(ctx.workdir)
            sys.exit(rc)
        extra = mod.run(ctx)
        rc = ctx.finish(mod.RULE, extra)
        sys.exit(rc)
    except (core.Machinery, tlc.TLCError) as e:
        tlc.cleanup(ctx.workdir)
        sys.stderr.write("MACHINERY-ERROR %s: %s\n" % (a.pid, e))
        sys.exit(2)
    except SystemExit:
        raise
    except BaseException:
        tlc.cleanup(ctx.workdir)
        sys.stderr.write("MACHINERY-ERROR %s: unexpected exception\n%s\n" % (a.pid, traceback.format_exc()))
        sys.exit(2)


def setup():
    """Parse every specification module with SANY; create the output directories."""
    for d in ("evidence", "replays", ".work"):
        os.makedirs(os.path.join(tlc.ROOT, d), exist_ok=True)
    bad = 0
    mods = sorted(f[:-4] for f in os.listdir(tlc.SPEC) if f.endswith(".tla"))
    from concurrent.futures import ThreadPoolExecutor
    with ThreadPoolExecutor(8) as ex:
        for m, (ok, out) in zip(mods, ex.map(tlc.sany, mods)):
            if not ok:
                bad += 1
                sys.stderr.write("SANY failed for %s:\n%s\n" % (m, out[-2000:]))
    print("setup: %d modules parsed, %d failed" % (len(mods), bad))
    return 1 if bad else 0


if __name__ == "__main__":
    main()
