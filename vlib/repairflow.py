"""Shared binding for C08, C09, C10: replay of MC_Repair exports into repair_dna and recording of real calls for Trace_Repair."""
import json
import os

import numpy

import dsw
from vlib import codingflow as cf
from vlib import impl
from vlib.core import Machinery

C08 = {"original-not-recovered", "detection-iff-not-walk"}
C09 = {"clean-strand-not-left-alone", "not-sorted-unique", "candidate-fails-check"}
C10 = {"termination-bound", "raises", "malformed-result", "lookup-bound"}
CAND_CAP = 20000


_ACC = {}


def shared_accessor(live):
    """One accessor object per graph and process: consecutive repair calls of a worker share the object, as a user's calls do."""
    key = tuple(tuple(x) for x in live)
    if key not in _ACC:
        if len(_ACC) > 64:
            _ACC.clear()
        _ACC[key] = (impl.accessor(live), impl.accessor(live))
    acc, snap = _ACC[key]
    if not numpy.array_equal(acc, snap):          # a call edited its argument: do not let that leak into the next case
        acc = snap.copy()
        _ACC[key] = (acc, snap)
    return acc


def run_repair(acc, start, dna_digits, k, vt, indel, heap, log=False, prior=False, slack=1):
    s = impl.dna(dna_digits)
    if prior:
        # history: the same strand was repaired just before on the same objects with the other has_indel setting and without a check;
        # nothing of that call may show in the judged one
        impl.call(dsw.repair_dna, s, acc, start, k, has_indel=not bool(indel), heap_size=100, _budget=len(s) + 1, _alarm=30)
    kw = dict(has_indel=bool(indel))
    if vt:
        kw["vt_check"] = impl.dna(vt)
        if (len(s) + start) % 4 == 0:
            kw["vt_check"] = numpy.str_(kw["vt_check"])          # a check picked from a numpy array of per-strand checks (a str subclass)
    kw["heap_size"] = 1e9 if heap == -1 else heap
    r = impl.call(dsw.repair_dna, s, acc, start, k, _budget=(len(s) + 1) * slack, _alarm=60, _log=log, **kw)
    o = {"out": cf.outcome(r), "cands": [], "det": 0, "flag": False, "count": 0, "visited": 0, "ticks": r["ticks"], "shape": False,
         "tl": [[int(sc["location"]), int(sc["vertex"]), int(sc["seglen"])] for site, sc in (r.get("log") or []) if site == "rep_scan"]}
    if r["out"] == "ok":
        v = r["value"]
        try:
            cands, st = v
            ok = isinstance(cands, list) and all(isinstance(x, str) for x in cands) and len(st) == 4
            o["shape"] = bool(ok)
            if ok:
                o["cands"] = [impl.undna(x) for x in cands]
                o["det"], o["flag"], o["count"], o["visited"] = int(st[0]), bool(st[1]), int(st[2]), int(st[3])
        except Exception:  # noqa
            o["shape"] = False
    return o


def replay_rec(rec):
    """Flow A for one MC_Repair record -> list of (clause, expected, observed) over all three properties + conformance notes."""
    # half of the records use the worker's long-lived accessor object of that graph (a user session), the others a fresh array that is
    # dropped afterwards (object identities are re-used by later graphs: a memo keyed on id() then serves another graph's data)
    acc = shared_accessor(rec["live"]) if (len(rec["dna"]) + rec["start"]) % 2 == 0 else impl.accessor(rec["live"])
    o = run_repair(acc, rec["start"], rec["dna"], rec["k"], rec["vt"], rec["indel"], rec["heap"],
                   prior=(len(rec["dna"]) + sum(rec["dna"]) + rec["start"]) % 2 == 0)
    bad = []
    n = len(rec["dna"])
    if o["out"] == "budget" or o["ticks"] > n:
        bad.append(("termination-bound", "at most %d scan iterations" % n, o["ticks"]))
        # the scan bound belongs to C10; the answer itself is still owed to C08 / C09: ask again with a generous budget
        o = run_repair(acc, rec["start"], rec["dna"], rec["k"], rec["vt"], rec["indel"], rec["heap"], slack=20)
        if o["out"] == "budget":
            return bad
    if o["out"] != "ok":
        bad.append(("raises", "returns", o["out"]))
        return bad
    if not o["shape"]:
        bad.append(("malformed-result", "(list of str, 4-tuple)", "other"))
        return bad
    if o["visited"] > max(rec["bound"], n + n * 16 * rec["k"] ** 2):
        bad.append(("lookup-bound", rec["bound"], o["visited"]))
    same = o["cands"] == rec["cands"] and o["det"] == rec["det"]
    if same:
        if (o["flag"], o["count"], o["visited"]) != (rec["flag"], rec["count"], rec["visited"]):
            bad.append(("conformance:statistics-differ", [rec["flag"], rec["count"], rec["visited"]], [o["flag"], o["count"], o["visited"]]))
        return bad          # identical to the machine's result, on which TLC checked every clause
    bad.append(("conformance:result-differs-from-machine", {"cands": [impl.dna(c) for c in rec["cands"]], "det": rec["det"]},
                {"cands": [impl.dna(c) for c in o["cands"]], "det": o["det"]}))
    bad.append(("needs-judgement", None, o))
    return bad


def case_of(gidx, rec, o, w=None, es=None):
    c = {"g": gidx, "start": rec["start"], "dna": rec["dna"], "vt": rec["vt"], "indel": bool(rec["indel"]), "heap": rec["heap"],
         "w": w if w is not None else rec.get("w", []), "es": es if es is not None else rec.get("es", [])}
    c.update({k: o[k] for k in ("out", "cands", "det", "flag", "count", "visited", "ticks", "shape")})
    c["tl"] = o.get("tl", [])
    if len(c["cands"]) > CAND_CAP:
        # an oversized answer (never seen on the pinned tree): the trace spec gets a prefix - order, duplicates and check consistency are
        # judged on it (a fault in the prefix is a fault); membership of the original is decided on the full list here, by equality
        full = c["cands"]
        c["cands"] = full[:CAND_CAP]
        if c["w"] and c["w"] in full and c["w"] not in c["cands"]:
            c["w"], c["es"] = [], []
        c["tl"] = []
    return c


def validate(ctx, graphs, cases, name):
    path = os.path.join(ctx.workdir, name)
    with open(path, "w") as f:
        json.dump({"graphs": graphs, "cases": cases}, f)
    r = ctx.tlc("Trace_Repair", "Trace.cfg", env={"TRACE_FILE": path}, workers=16, timeout=3400, heap="12g")
    got = {x["cid"]: x["verdict"] for x in r.records if "verdict" in x}
    if len(got) != len(cases):
        raise Machinery("trace validation returned %d verdicts for %d cases" % (len(got), len(cases)))
    return got


def flow_a(ctx, cfgs, mine, tag):
    """Replay MC_Repair exports. A result equal to the machine's inherits TLC's verdicts; a differing result is sent to
    Trace_Repair and judged on its own (so a property verdict never rests on mere difference from the machine)."""
    recs = []
    for cfg in cfgs:
        r = ctx.tlc("MC_Repair", cfg, workers=16, timeout=3400, heap="14g")
        recs += r.records
    if len(recs) < 50000:
        raise Machinery("too few exported repair behaviours: %d" % len(recs))
    res = impl.pmap(replay_rec, recs, chunk=256)
    graphs, gidx, pending = [], {}, []
    for rec, bad in zip(recs, res):
        ctx.judged()
        if rec["nedits"] or not rec["walk"]:
            ctx.mark(tag + json.dumps([rec["live"], rec["start"], rec["dna"], rec["vt"], rec["indel"], rec["heap"]]))
        for clause, exp, obs in bad:
            if clause == "needs-judgement":
                key = json.dumps([rec["k"], rec["live"]])
                if key not in gidx:
                    graphs.append({"k": rec["k"], "live": rec["live"]})
                    gidx[key] = len(graphs)
                pending.append((rec, case_of(gidx[key], rec, obs, w=rec["w"], es=rec["es"])))
            elif clause.startswith("conformance:"):
                ctx.divergence(clause, {"start": rec["start"], "dna": impl.dna(rec["dna"])})
            elif clause in mine:
                ctx.violation(clause, small_case(rec), exp, impl.jsonable(obs))
    if pending:
        got = validate(ctx, graphs, [c for _, c in pending[:20000]], "repair_pending_%s.json" % tag)
        for i, (rec, c) in enumerate(pending[:20000], 1):
            for cl in got[i]:
                if cl in mine:
                    ctx.violation(cl, small_case(rec), "ok", cl)
    return len(recs)


def small_case(rec):
    return {"k": rec["k"], "live": rec["live"], "start": rec["start"], "dna": impl.dna(rec["dna"]), "vt": impl.dna(rec["vt"]),
            "indel": rec["indel"], "heap": rec["heap"], "w": impl.dna(rec.get("w", []))}
