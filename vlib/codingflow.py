"""Shared binding code for the coder properties (C01, C04, C05, C06, C18): replay of MC_Coding exports into
encode/decode, and recording of real encode/decode calls for Trace_Coding."""
import json
import os

import numpy

import dsw
from vlib import impl
from vlib.core import Machinery

IDENT = [0, 1, 2, 3]


def outcome(r):
    return "ok" if r["out"] == "ok" else ("budget" if r["out"] == "budget" else r["type"])


_TABLE_OBJECTS = {}


def shuffles_of(tbl):
    """The numpy table handed to the library. One object per table (by identity of the row list), shared by every call that uses
    that table - as a user would keep one table for a whole session."""
    if tbl is None or all(list(row) == IDENT for row in tbl):
        return None
    key = id(tbl)
    if key not in _TABLE_OBJECTS or _TABLE_OBJECTS[key][0] is not tbl:
        if len(_TABLE_OBJECTS) > 64:
            _TABLE_OBJECTS.clear()
        _TABLE_OBJECTS[key] = (tbl, numpy.array(tbl, dtype=int))
    return _TABLE_OBJECTS[key][1]


def run_encode(acc, start, msg, mode, vtlen, tbl, budget=None, as_list=False, log=False):
    """-> dict(enc_out, strand (digits), vt (digits), ticks, raw strand string)."""
    m = list(msg) if as_list else numpy.array(msg, dtype=int)
    kw = dict(is_faster=(mode == "fast"), vt_length=vtlen)
    sh = shuffles_of(tbl)
    if sh is not None:
        kw["shuffles"] = sh
    r = impl.call(dsw.encode, m, acc, start, _budget=budget, _alarm=60, _log=log, **kw)
    out = {"enc_out": outcome(r), "ticks": r["ticks"], "strand": [], "vt": [], "s": "", "c": None, "msg": r.get("msg"),
           "tv": [int(sc["vertex"]) for site, sc in (r.get("log") or []) if site in ("enc_n", "enc_f")]}
    if r["out"] == "ok":
        v = r["value"]
        if vtlen > 0:
            if isinstance(v, tuple) and len(v) == 2:
                out["s"], out["c"] = v
            else:
                out["enc_out"] = "bad-return-shape"
                return out
        else:
            out["s"] = v
        if not isinstance(out["s"], str):
            out["enc_out"] = "bad-return-shape"
            return out
        out["strand"] = impl.undna(out["s"])
        out["vt"] = impl.undna(out["c"]) if out["c"] is not None else []
    return out


def run_decode(acc, start, s, w, mode, chk, tbl):
    kw = dict(is_faster=(mode == "fast"))
    sh = shuffles_of(tbl)
    if sh is not None:
        kw["shuffles"] = sh
    if chk is not None:
        kw["vt_check"] = chk
    # the message width and the start vertex as callers hold them: Python ints or numpy integers (a length byte of a header is unsigned)
    pick = (len(s) + 3 * w + start) % 8
    wt = [int, int, numpy.int64, numpy.uint8 if w < 256 else numpy.uint16, numpy.uint32, numpy.uint64, int, numpy.int32][pick]
    st = numpy.int64(start) if pick in (2, 6) else start
    r = impl.call(dsw.decode, s, wt(w), acc, st, _alarm=60, **kw)
    res = {"out": outcome(r), "bits": []}
    if r["out"] == "ok":
        try:
            res["bits"] = [int(x) for x in r["value"]]
        except Exception:  # noqa
            res["out"] = "bad-return-shape"
    return res


def replay_enc(rec):
    """Flow A for one MC_Coding record. Returns list of (clause, expected, observed)."""
    acc = impl.accessor(rec["live"])
    keep = acc.copy()
    tbl = rec["tbl"]
    e = run_encode(acc, rec["start"], rec["msg"], rec["mode"], rec["vtlen"], tbl, budget=rec["bound"] + 2,
                   as_list=(len(rec["msg"]) % 2 == 1))
    bad = []
    if e["enc_out"] == "budget" or e["ticks"] > max(rec["bound"], 0) + 1:
        bad.append(("termination-bound", rec["bound"], e["ticks"]))
    if e["enc_out"] != "ok":
        if e["enc_out"] != "budget":
            bad.append(("encode-raises", "returns", e["enc_out"] + ": " + str(e.get("msg"))))
        return bad
    if e["strand"] != rec["strand"]:
        bad.append(("strand", impl.dna(rec["strand"]), e["s"]))
    if rec["vtlen"] > 0 and e["vt"] != rec["vt"]:
        bad.append(("check", impl.dna(rec["vt"]), e["c"]))
    d = run_decode(acc, rec["start"], e["s"], len(rec["msg"]), rec["mode"], e["c"], tbl)
    if d["out"] != "ok" or d["bits"] != rec["msg"]:
        bad.append(("round-trip", rec["msg"], d))
    if e["strand"] != rec["strand"]:
        # also decode the documented strand: a conforming reader must get the message back from the published walk
        d2 = run_decode(acc, rec["start"], impl.dna(rec["strand"]), len(rec["msg"]), rec["mode"],
                        impl.dna(rec["vt"]) if rec["vtlen"] > 0 else None, tbl)
        if d2["out"] != "ok" or d2["bits"] != rec["msg"]:
            bad.append(("decode-of-documented-strand", rec["msg"], d2))
    if not numpy.array_equal(acc, keep):
        bad.append(("argument-modified", "accessor unchanged", "changed"))
    if "path" in rec and rec["vtlen"] == 0 and len(rec["msg"]) >= 2:
        # conformance only (no property speaks about it): the need_path record of the specification's encoder
        kw = dict(is_faster=(rec["mode"] == "fast"), need_path=True)
        sh = shuffles_of(tbl)
        if sh is not None:
            kw["shuffles"] = sh
        r = impl.call(dsw.encode, numpy.array(rec["msg"], dtype=int), acc, rec["start"], **kw)
        try:
            got = [[int(a), int(b)] for a, b in r["value"][1].tolist()] if r["out"] == "ok" else r.get("type")
        except Exception:  # noqa
            got = "unreadable"
        if got != rec["path"]:
            bad.append(("conformance:need_path-record", rec["path"], got))
    return bad


# ---------------------------------------------------------------- seeded inputs for Flow B
def random_live(rng, k, dens, min_out=0):
    n = 4 ** k
    live = []
    for _ in range(n):
        L = [j for j in range(4) if rng.random() < dens]
        while len(L) < min_out:
            j = rng.randrange(4)
            if j not in L:
                L.append(j)
        live.append(sorted(L))
    return live


def generated_live(rng, k, t=None):
    """A graph produced by the library's own generator from a seeded mask (None if generation fails)."""
    n = 4 ** k
    dens = rng.choice([0.5, 0.7, 0.85, 0.95])
    mask = numpy.array([rng.random() < dens for _ in range(n)])
    t = t or rng.choice([1, 2, 2, 3])
    r = impl.call(dsw.connect_coding_graph, k, mask, t, _budget=8 * n + 16, _alarm=60)
    if r["out"] != "ok":
        return None
    return impl.live_of(r["value"][1])


def filter_live(rng, k):
    """A graph produced by the library's own pipeline from a realistic local filter (homopolymer limit 1..2, a GC window); such masks
    are sparse in a structured way (e.g. no k-mer starts with AAA), unlike random masks."""
    run = rng.choice([1, 2, 2])
    lo, hi = rng.choice([(0.2, 0.8), (0.3, 0.7), (0.4, 0.6)])
    flt = dsw.LocalBioFilter(observed_length=k, max_homopolymer_runs=run, gc_range=[lo, hi])
    r = impl.call(dsw.find_vertices, k, flt, _alarm=120)
    if r["out"] != "ok":
        return None
    r2 = impl.call(dsw.connect_coding_graph, k, r["value"], rng.choice([1, 2]), _budget=8 * 4 ** k + 16, _alarm=120)
    return impl.live_of(r2["value"][1]) if r2["out"] == "ok" else None


def random_table(rng, n):
    rows = []
    for _ in range(n):
        p = IDENT[:]
        rng.shuffle(p)
        rows.append(p)
    return rows


def pick_start(rng, live):
    cand = [v for v, L in enumerate(live) if L]
    return rng.choice(cand) if cand else 0


def make_msg(rng, L):
    kind = rng.randrange(6)
    if kind == 0:
        return [0] * L
    if kind == 1:
        return [1] * L
    if kind == 2:
        return [0] * (L // 2) + [rng.randrange(2) for _ in range(L - L // 2)]
    return [rng.randrange(2) for _ in range(L)]


def record_enc_cases(rng, n, maxbits, orders=(2, 3, 4, 5), budget_factor=1):
    graphs, tables, cases = [], [], []
    shared_tbl = {}
    for i in range(n):
        k = rng.choice(orders)
        if i % 3 == 0:
            live = random_live(rng, k, rng.choice([0.5, 0.75, 1.0]), min_out=rng.choice([0, 1, 1]))
        else:
            live = generated_live(rng, k) or random_live(rng, k, 0.9, min_out=1)
        if i % 5 == 0:   # no out-degree 3, so that fast mode is in scope
            live = [L if len(L) != 3 else L[:2] for L in live]
        graphs.append(live)
        g = len(graphs)
        acc = impl.accessor(live)
        nreach = 4 ** k
        for j in range(3):
            start = pick_start(rng, live)
            L = rng.choice([0, 1, 2, 3, 7, 8, 9, 16, 31, 32, 33, 64, 100, 255, maxbits, rng.randint(0, maxbits)])
            msg = make_msg(rng, L)
            mode = "fast" if (i % 5 == 0 and j != 2) else "normal"
            vtlen = rng.choice([0, 0, 1, 2, 4, 8, 33, 64])
            if rng.random() < 0.5:
                if k in shared_tbl and rng.random() < 0.6:
                    t = shared_tbl[k]                      # the same table object serves several graphs of this order
                else:
                    tables.append(random_table(rng, 4 ** k))
                    t = len(tables)
                    shared_tbl.setdefault(k, t)
                tbl = tables[t - 1]
            else:
                t, tbl = 0, None
            e = run_encode(acc, start, msg, mode, vtlen, tbl, budget=budget_factor * (L * nreach + 4), as_list=(j == 1), log=True)
            c = {"kind": "enc", "g": g, "tbl": t, "start": start, "msg": msg, "mode": mode, "vtlen": vtlen, "tv": e["tv"],
                 "enc_out": e["enc_out"], "strand": e["strand"], "vt": e["vt"], "ticks": e["ticks"], "dec_out": "none", "decoded": []}
            if e["enc_out"] == "ok":
                d = run_decode(acc, start, e["s"], L, mode, e["c"], tbl)
                c["dec_out"], c["decoded"] = d["out"], d["bits"]
            cases.append(c)
        # history on the same accessor OBJECT: a documented in-place edit (arc removal) between two uses of the graph. The arc that
        # will go is learnt on a copy; the vertex it leaves is used as start before and after the edit.
        if i % 2 == 0 and k <= 3:
            probe = impl.call(dsw.remove_nasty_arc, acc.copy(), dsw.accessor_to_latter_map(acc.copy()), _alarm=60)
            if probe["out"] == "ok":
                former = int(probe["value"][2][0])
                warm = make_msg(rng, 40)
                htbl, ht = None, 0
                if rng.random() < 0.5:
                    tables.append(random_table(rng, 4 ** k))
                    ht, htbl = len(tables), tables[-1]
                run_encode(acc, former, warm, "normal", 0, htbl, budget=budget_factor * (40 * nreach + 4))       # not logged: first use
                r = impl.call(dsw.remove_nasty_arc, acc, dsw.accessor_to_latter_map(acc), _alarm=60)
                if r["out"] == "ok":
                    graphs.append(impl.live_of(acc))
                    g2 = len(graphs)
                    for msg in (warm, make_msg(rng, 24), make_msg(rng, 64)):
                        e = run_encode(acc, former, msg, "normal", 0, htbl, budget=budget_factor * (len(msg) * nreach + 4))
                        c = {"kind": "enc", "g": g2, "tbl": ht, "start": former, "tv": [], "msg": msg, "mode": "normal", "vtlen": 0, "enc_out": e["enc_out"],
                             "strand": e["strand"], "vt": e["vt"], "ticks": e["ticks"], "dec_out": "none", "decoded": []}
                        if e["enc_out"] == "ok":
                            d = run_decode(acc, former, e["s"], len(msg), "normal", e["c"], htbl)
                            c["dec_out"], c["decoded"] = d["out"], d["bits"]
                        cases.append(c)
    return graphs, tables, cases


def validate(ctx, graphs, tables, cases, name="coding_trace.json", timeout=3400):
    path = os.path.join(ctx.workdir, name)
    with open(path, "w") as f:
        json.dump({"graphs": graphs, "tables": tables, "cases": cases}, f)
    r = ctx.tlc("Trace_Coding", "Trace.cfg", env={"TRACE_FILE": path}, workers=16, timeout=timeout, heap="12g")
    got = {x["cid"]: x["verdict"] for x in r.records if "verdict" in x}
    if len(got) != len(cases):
        raise Machinery("trace validation returned %d verdicts for %d cases" % (len(got), len(cases)))
    for i, v in got.items():
        for cl in v:
            if cl.startswith("machinery:"):
                raise Machinery("trace spec inconsistency on case %d: %s" % (i, cl))
    return got
