"""Flow S: the repository's own tests as trace sources. The suite runs unmodified under vlib.suite_plugin; every encode /
decode / repair_dna / set_vt call it makes is recorded and judged by the same trace specifications as Flow B."""
import json
import os
import subprocess
import sys

from vlib import codingflow as cf
from vlib import impl
from vlib import repairflow as rf
from vlib.core import Machinery


def record(ctx):
    path = os.path.join(ctx.workdir, "suite.jsonl")
    env = dict(os.environ)
    env["SUITE_TRACE_FILE"] = path
    repo = impl.repo_path()
    from vlib import tlc
    env["PYTHONPATH"] = tlc.ROOT + os.pathsep + repo
    env.pop("DSW_VERIF", None)              # the suite runs exactly as the baseline does, guard off
    p = subprocess.run([sys.executable, "-m", "pytest", "-q", "-p", "no:cacheprovider", "-p", "vlib.suite_plugin", "--timeout=900", "tests"],
                       cwd=repo, env=env, stdout=subprocess.PIPE, stderr=subprocess.STDOUT, timeout=3000)
    out = p.stdout.decode("utf-8", "replace")
    recs = [json.loads(l) for l in open(path)] if os.path.exists(path) else []
    if not recs:
        raise Machinery("the suite produced no trace records:\n" + out[-1500:])
    return recs, out.strip().splitlines()[-1]


def judge(ctx, mine_coding=(), mine_repair=(), mine_vt=False):
    recs, summary = record(ctx)
    graphs = {r["id"]: r for r in recs if r["rec"] == "graph"}
    tables = {r["id"]: r["rows"] for r in recs if r["rec"] == "table"}
    gl = [graphs[i]["live"] for i in sorted(graphs)]
    tl = [tables[i] for i in sorted(tables)]
    n = 0
    if mine_coding:
        cases = []
        # pair every encode with the decode of its strand under the same graph / table / start / mode / length, when the suite made one
        dec_index = {}
        for r in recs:
            if r["rec"] == "decode":
                dec_index.setdefault((r["g"], r["tbl"], r["start"], r["mode"], r["w"], tuple(r["dna"])), r)
        for r in recs:
            if r["rec"] == "encode" and graphs[r["g"]]["wellformed"]:
                d = dec_index.get((r["g"], r["tbl"], r["start"], r["mode"], len(r["msg"]), tuple(r.get("strand", []))))
                cases.append({"kind": "enc", "g": r["g"], "tbl": r["tbl"], "start": r["start"], "msg": r["msg"], "mode": r["mode"], "vtlen": r["vtlen"],
                              "enc_out": r["out"], "strand": r.get("strand", []), "vt": r.get("vt", []), "ticks": 0, "tv": [],
                              "dec_out": d["out"] if d else "none", "decoded": d["bits"] if d else []})
            elif r["rec"] == "decode" and graphs[r["g"]]["wellformed"]:
                cases.append({"kind": "dec", "g": r["g"], "tbl": r["tbl"], "start": r["start"], "dna": r["dna"], "mode": r["mode"], "w": r["w"],
                              "chk": r["chk"], "out": r["out"], "bits": r["bits"]})
        if cases:
            got = cf.validate(ctx, gl, tl, cases, name="suite_coding.json")
            for i, c in enumerate(cases, 1):
                v = got[i]
                if v in (["precondition-false"], ["out-of-scope"]):
                    ctx.vacuous += 1
                    continue
                ctx.judged()
                ctx.mark("S" + json.dumps([c["kind"], c["g"], c["start"], c.get("msg", c.get("dna"))[:64], c["mode"], c["tbl"]]))
                for cl in v:
                    if cl in mine_coding:
                        ctx.violation(cl, {"source": "repository test suite", "kind": c["kind"], "order": len(gl[c["g"] - 1]), "start": c["start"],
                                           "mode": c["mode"], "input": c.get("msg", c.get("dna"))[:100]}, "ok", cl)
            n += len(cases)
    if mine_repair:
        cases = []
        for r in recs:
            if r["rec"] == "repair" and r["out"] == "ok":
                heap = -1 if r["heap"] >= 10 ** 6 else r["heap"]
                o = {k: r[k] for k in ("out", "cands", "det", "flag", "count", "visited")}
                o["ticks"], o["shape"] = 0, True
                cases.append(rf.case_of(r["g"], {"start": r["start"], "dna": r["dna"], "vt": r["vt"], "indel": r["indel"], "heap": heap}, o, w=[], es=[]))
                cases[-1]["_k"] = r["k"]
        if cases:
            gr = [{"k": next(c["_k"] for c in cases if c["g"] == i), "live": graphs[i]["live"]} if any(c["g"] == i for c in cases)
                  else {"k": 1, "live": graphs[i]["live"]} for i in sorted(graphs)]
            for c in cases:
                c.pop("_k")
            got = rf.validate(ctx, gr, cases, "suite_repair.json")
            for i, c in enumerate(cases, 1):
                ctx.judged()
                ctx.mark("SR" + json.dumps([c["g"], c["start"], c["dna"], c["vt"]]))
                for cl in got[i]:
                    if cl in mine_repair:
                        ctx.violation(cl, {"source": "repository test suite", "dna": impl.dna(c["dna"]), "start": c["start"]}, "ok", cl)
            n += len(cases)
    ctx.notes["suite_traces"] = {"pytest": summary, "records": len(recs), "judged_cases": n}
    return n
