"""Apalache inductive-invariant lemmas over unbounded integers (additive evidence; each under its own timeout)."""
import os
import shutil
import subprocess
import time

from vlib import tlc


def _one(module, init, inv, length, workdir, timeout):
    out = os.path.join(workdir, "apa-%s-%s" % (module, init))
    cmd = ["apalache-mc", "check", "--init=" + init, "--inv=" + inv, "--length=%d" % length, "--out-dir=" + out,
           os.path.join(tlc.SPEC, module + ".tla")]
    t0 = time.time()
    try:
        p = subprocess.run(cmd, stdout=subprocess.PIPE, stderr=subprocess.STDOUT, timeout=timeout, cwd=workdir)
        txt = p.stdout.decode("utf-8", "replace")
        ok = p.returncode == 0 and "The outcome is: NoError" in txt
        res = "discharged" if ok else ("refuted" if "Error" in txt and "violat" in txt else "failed")
    except subprocess.TimeoutExpired:
        res = "timeout"
    shutil.rmtree(out, ignore_errors=True)
    return res, round(time.time() - t0, 1)


def lemmas(modules, ctx, timeout=240):
    """For each Ind_* module: Init => IndInv (length 0) and IndInv /\\ Next => IndInv' (length 1)."""
    out = []
    for m in modules:
        base, s0 = _one(m, "Init", "IndInv", 0, ctx.workdir, timeout)
        step, s1 = _one(m, "IndInit", "IndInv", 1, ctx.workdir, timeout)
        out.append({"name": m, "init_implies_inv": base, "inv_is_inductive": step, "seconds": s0 + s1})
    return out
