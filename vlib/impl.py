"""Implementation side: value transport between TLA+ encodings and dsw objects, guarded calls, tick budgets.
Contains no reference implementation of any dsw function: expectations always come from TLC."""
import io
import os
import signal
import sys
from contextlib import redirect_stdout
from multiprocessing import Pool

import numpy

import dsw
from dsw import _verif

NT = "ACGT"
FOREIGN = ["N", "a", "-", "5", "U", "é", " ", "X"]


class VerifBudgetExceeded(BaseException):
    """Raised from the tick sink / alarm when a call exceeds the bound the specification gives (BaseException so that
    library except-clauses cannot swallow it)."""


def dna(seq, salt=0):
    """digits 0..3 -> ACGT, 4 -> a foreign character (rotating)."""
    return "".join(NT[d] if d < 4 else FOREIGN[(salt + i) % len(FOREIGN)] for i, d in enumerate(seq))


TRICKY = ["\n", " ", "\t", "a", "t", "\r", "\x00", "\uff21"]   # characters that naive normalisation / pattern matching lets through


def dna_tricky(seq, pick):
    """As dna(), every foreign symbol rendered as one character of TRICKY (a trailing line feed, surrounding blanks, lower case...)."""
    ch = TRICKY[pick % len(TRICKY)]
    return "".join(NT[d] if d < 4 else ch for d in seq)


def undna(s):
    return [NT.index(c) if c in NT else 4 for c in s]


def accessor(live):
    """live: list over vertices of lists of live nucleotides (0..3) -> numpy accessor."""
    n = len(live)
    acc = -numpy.ones((n, 4), dtype=int)
    for v, L in enumerate(live):
        for j in L:
            acc[v, j] = (4 * v + j) % n
    return acc


def live_of(acc):
    return [[int(j) for j in range(4) if acc[v][j] >= 0] for v in range(len(acc))]


def index_of(x):
    """A vertex index / digit handed back by the library, as an int; a value that is not a whole number (1.25) becomes -7, which no
    expectation contains (int() would silently round it to the expected value)."""
    if isinstance(x, (int, numpy.integer)) and not isinstance(x, (bool, numpy.bool_)):
        return int(x)
    if isinstance(x, (float, numpy.floating)) and x == int(x):
        return int(x)
    return -7


def acc_list(acc):
    return [[index_of(x) for x in row] for row in acc]


def table(rows):
    return numpy.array(rows, dtype=int)


class Budget(object):
    """Tick sink with a per-call budget per site family."""

    def __init__(self):
        self.count = 0
        self.limit = None
        self.log = None

    def __call__(self, site, scalars):
        self.count += 1
        if self.log is not None:
            self.log.append((site, scalars))
        if self.limit is not None and self.count > self.limit:
            raise VerifBudgetExceeded("tick budget %d exceeded at %s" % (self.limit, site))


BUDGET = Budget()
if _verif.ON:
    _verif.install(BUDGET)


_WATCHDOG_FIRED = [0]


def _alarm(signum, frame):
    _WATCHDOG_FIRED[0] += 1
    raise VerifBudgetExceeded("wall-clock watchdog fired")


def call(fn, *args, **kw):
    """Run fn under a tick budget and a wall-clock watchdog. Returns a dict:
    {"out": "ok", "value": v, "ticks": n} | {"out": "exc", "type": name, "msg": str} | {"out": "budget", "msg": str}.
    Keyword-only controls: _budget (ticks), _alarm (seconds), _log (collect ticks), _quiet (capture stdout)."""
    budget = kw.pop("_budget", None)
    secs = kw.pop("_alarm", 60)
    if _WATCHDOG_FIRED[0] >= 3:          # a tree that hangs again and again: do not spend a minute on every further call
        secs = min(secs, 10)
    log = kw.pop("_log", False)
    quiet = kw.pop("_quiet", False)
    BUDGET.count, BUDGET.limit, BUDGET.log = 0, budget, ([] if log else None)
    old = signal.signal(signal.SIGALRM, _alarm)
    signal.alarm(secs)
    buf = io.StringIO()
    try:
        try:
            if quiet:
                with redirect_stdout(buf):
                    v = fn(*args, **kw)
            else:
                v = fn(*args, **kw)
            res = {"out": "ok", "value": v}
        except VerifBudgetExceeded as e:
            res = {"out": "budget", "msg": str(e)}
        except Exception as e:  # noqa
            res = {"out": "exc", "type": type(e).__name__, "msg": str(e)[:200]}
    finally:
        signal.alarm(0)
        signal.signal(signal.SIGALRM, old)
    res["ticks"] = BUDGET.count
    if log:
        res["log"] = BUDGET.log
    if quiet:
        res["stdout"] = buf.getvalue()
    BUDGET.limit, BUDGET.log = None, None
    return res


def jsonable(v):
    if isinstance(v, numpy.ndarray):
        return v.tolist()
    if isinstance(v, (numpy.integer,)):
        return int(v)
    if isinstance(v, (numpy.floating,)):
        return float(v)
    if isinstance(v, (numpy.bool_,)):
        return bool(v)
    if isinstance(v, (list, tuple)):
        return [jsonable(x) for x in v]
    if isinstance(v, dict):
        return {str(k): jsonable(x) for k, x in v.items()}
    return v


def pmap(fn, items, procs=16, chunk=None):
    """Parallel map over items in forked workers (the dsw tree is imported before the fork)."""
    items = list(items)
    if len(items) < 64 or procs <= 1:
        return [fn(x) for x in items]
    chunk = chunk or max(1, min(2000, len(items) // (procs * 4)))
    with Pool(procs) as pool:
        return pool.map(fn, items, chunksize=chunk)


def repo_path():
    return os.path.dirname(os.path.dirname(os.path.abspath(dsw.__file__)))
