"""pytest plugin (Flow S): records every encode / decode / repair_dna / set_vt call the repository's own tests make.
Loaded with `-p vlib.suite_plugin`; needs no change to the repository. Records go to $SUITE_TRACE_FILE as JSON lines.
The wrappers call the original function and hand its result (or exception) through unchanged."""
import functools
import json
import os

import numpy

_OUT = None
_GRAPHS = {}
_TABLES = {}


def _graph_id(acc):
    a = numpy.asarray(acc)
    key = a.tobytes() + str(a.shape).encode()
    if key not in _GRAPHS:
        _GRAPHS[key] = len(_GRAPHS) + 1
        live = [[int(j) for j in range(4) if a[v][j] >= 0] for v in range(len(a))]
        _emit({"rec": "graph", "id": _GRAPHS[key], "live": live,
               "wellformed": bool(all(a[v][j] in (-1, (4 * v + j) % len(a)) for v in range(len(a)) for j in range(4)))})
    return _GRAPHS[key]


def _table_id(t):
    if t is None:
        return 0
    a = numpy.asarray(t)
    key = a.tobytes() + str(a.shape).encode()
    if key not in _TABLES:
        _TABLES[key] = len(_TABLES) + 1
        _emit({"rec": "table", "id": _TABLES[key], "rows": a.tolist()})
    return _TABLES[key]


def _emit(obj):
    if _OUT is not None:
        _OUT.write(json.dumps(obj) + "\n")
        _OUT.flush()


def _digits(s):
    return ["ACGT".index(c) if c in "ACGT" else 4 for c in s]


def _bind(fn, names, args, kwargs):
    d = dict(zip(names, args))
    d.update(kwargs)
    return d


def _wrap_encode(orig):
    names = ["binary_message", "accessor", "start_index", "is_faster", "vt_length", "shuffles", "need_path", "verbose"]

    @functools.wraps(orig)
    def w(*args, **kwargs):
        a = _bind(orig, names, args, kwargs)
        rec = {"rec": "encode", "g": _graph_id(a["accessor"]), "tbl": _table_id(a.get("shuffles")), "start": int(a["start_index"]),
               "msg": [int(x) for x in a["binary_message"]], "mode": "fast" if a.get("is_faster") else "normal",
               "vtlen": int(a.get("vt_length") or 0), "need_path": bool(a.get("need_path"))}
        try:
            r = orig(*args, **kwargs)
        except Exception as e:  # noqa
            rec["out"] = type(e).__name__
            _emit(rec)
            raise
        rec["out"] = "ok"
        parts = r if isinstance(r, tuple) else (r,)
        rec["strand"] = _digits(parts[0])
        rec["vt"] = _digits(parts[1]) if rec["vtlen"] > 0 and len(parts) > 1 else []
        _emit(rec)
        return r
    return w


def _wrap_decode(orig):
    names = ["dna_sequence", "bit_length", "accessor", "start_index", "is_faster", "vt_check", "shuffles", "verbose"]

    @functools.wraps(orig)
    def w(*args, **kwargs):
        a = _bind(orig, names, args, kwargs)
        rec = {"rec": "decode", "g": _graph_id(a["accessor"]), "tbl": _table_id(a.get("shuffles")), "start": int(a["start_index"]),
               "dna": _digits(a["dna_sequence"]), "w": int(a["bit_length"]), "mode": "fast" if a.get("is_faster") else "normal",
               "chk": _digits(a["vt_check"]) if a.get("vt_check") is not None else []}
        try:
            r = orig(*args, **kwargs)
        except Exception as e:  # noqa
            rec["out"], rec["bits"] = type(e).__name__, []
            _emit(rec)
            raise
        rec["out"], rec["bits"] = "ok", [int(x) for x in r]
        _emit(rec)
        return r
    return w


def _wrap_repair(orig):
    names = ["dna_sequence", "accessor", "start_index", "observed_length", "vt_check", "has_indel", "heap_size"]

    @functools.wraps(orig)
    def w(*args, **kwargs):
        a = _bind(orig, names, args, kwargs)
        rec = {"rec": "repair", "g": _graph_id(a["accessor"]), "start": int(a["start_index"]), "k": int(a["observed_length"]),
               "dna": _digits(a["dna_sequence"]), "vt": _digits(a["vt_check"]) if a.get("vt_check") is not None else [],
               "indel": bool(a.get("has_indel", False)), "heap": int(a.get("heap_size", 1e3))}
        try:
            r = orig(*args, **kwargs)
        except Exception as e:  # noqa
            rec["out"] = type(e).__name__
            _emit(rec)
            raise
        rec["out"] = "ok"
        rec["cands"] = [_digits(x) for x in r[0]]
        rec["det"], rec["flag"], rec["count"], rec["visited"] = int(r[1][0]), bool(r[1][1]), int(r[1][2]), int(r[1][3])
        _emit(rec)
        return r
    return w


def _wrap_vt(orig):
    @functools.wraps(orig)
    def w(*args, **kwargs):
        a = _bind(orig, ["dna_sequence", "vt_length"], args, kwargs)
        r = orig(*args, **kwargs)
        _emit({"rec": "set_vt", "s": _digits(a["dna_sequence"]), "n": int(a["vt_length"]), "vt": _digits(r)})
        return r
    return w


def pytest_configure(config):
    global _OUT
    path = os.environ.get("SUITE_TRACE_FILE")
    if not path:
        return
    _OUT = open(path, "w")
    import dsw
    import dsw.spiderweb as sw
    for name, wrap in (("encode", _wrap_encode), ("decode", _wrap_decode), ("repair_dna", _wrap_repair), ("set_vt", _wrap_vt)):
        wrapped = wrap(getattr(sw, name))
        setattr(dsw, name, wrapped)          # tests import from the package: `from dsw import encode`


def pytest_unconfigure(config):
    if _OUT is not None:
        _OUT.close()
