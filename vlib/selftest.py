"""./check selftest - demonstrates the binding: one recorded field of a trace of every kind is corrupted and the trace
specification must reject it while accepting the uncorrupted trace; a disabled tick hook must turn the budgeted verdict into
the watchdog verdict, not into silence. (Seeded changes to the repository are exercised with tools/try_mutant.sh.)"""
import copy
import json
import os
import random
import sys

import numpy

import dsw
from vlib import codingflow as cf
from vlib import core, impl, tlc
from vlib import repairflow as rf


def _verdicts(ctx, module, data, name, key="cid"):
    path = os.path.join(ctx.workdir, name)
    with open(path, "w") as f:
        json.dump(data, f)
    r = ctx.tlc(module, "Trace.cfg", env={"TRACE_FILE": path}, workers=4, timeout=600)
    return {x[key]: x["verdict"] for x in r.records if key in x}


def main():
    ctx = core.Ctx("selftest", "quick", 0)
    rng = random.Random(5)
    fails = []

    def expect(name, good, bad):
        ok = (good in ("ok", ["ok"], [])) and bad not in ("ok", ["ok"], [])
        print("%-34s uncorrupted=%s corrupted=%s %s" % (name, good, bad, "OK" if ok else "FAILED"))
        if not ok:
            fails.append(name)

    # 1. DeBruijn trace: successor list
    c = {"kind": "arith", "k": 3, "v": 27, "latters": [int(x) for x in dsw.obtain_latters(27, 3)], "formers": [int(x) for x in dsw.obtain_formers(27, 3)],
         "kmer_int": impl.undna(dsw.number_to_dna(27, 3)), "kmer_str": impl.undna(dsw.number_to_dna("27", 3)), "back_int": 27, "back_str": 27,
         "row": [int(x) for x in dsw.get_complete_accessor(3)[27]]}
    c2 = copy.deepcopy(c)
    c2["latters"][2] += 1
    v = _verdicts(ctx, "Trace_DeBruijn", {"cases": [c, c2]}, "st1.json")
    expect("Trace_DeBruijn/successors", v[1], v[2])
    # 2. Bignum trace: one result digit
    c = {"kind": "op", "op": "mul", "num": [9, 9, 9, 7], "b": 7, "res": [int(x) for x in dsw.calculus_multiplication("9997", "7")], "rem": 0}
    c2 = copy.deepcopy(c)
    c2["res"][-1] = (c2["res"][-1] + 1) % 10
    v = _verdicts(ctx, "Trace_Bignum", {"cases": [c, c2]}, "st2.json")
    expect("Trace_Bignum/result-digit", v[1], v[2])
    # 3. Coding trace: one nucleotide of the strand
    graphs, tables, cases = cf.record_enc_cases(rng, 3, 64, orders=(2,))
    good = [x for x in cases if x["enc_out"] == "ok" and len(x["strand"]) > 2][0]
    bad = copy.deepcopy(good)
    bad["strand"][1] = (bad["strand"][1] + 1) % 4
    v = cf.validate(ctx, graphs, tables, [good, bad], name="st3.json")
    expect("Trace_Coding/strand", [x for x in v[1] if x != "precondition-false"] or "ok", v[2])
    if good.get("tv"):
        bad2 = copy.deepcopy(good)
        bad2["tv"][-1] = (bad2["tv"][-1] + 1) % len(graphs[good["g"] - 1])
        v2 = cf.validate(ctx, graphs, tables, [good, bad2], name="st3b.json")
        expect("Trace_Coding/tick-vertex", v2[1], v2[2])
    # 4. Repair trace: drop the first candidate
    live = impl.live_of(numpy.array([[-1, -1, -1, -1], [4, -1, -1, 7], [8, -1, -1, 11], [-1, -1, -1, -1], [-1, 1, 2, -1], [-1, -1, -1, -1],
                                     [-1, -1, -1, -1], [-1, 13, 14, -1], [-1, 1, 2, -1], [-1, -1, -1, -1], [-1, -1, -1, -1], [-1, 13, 14, -1],
                                     [-1, -1, -1, -1], [4, -1, -1, 7], [8, -1, -1, 11], [-1, -1, -1, -1]]))
    acc = impl.accessor(live)
    dna = impl.undna("TCTCTATCTCTC")
    o = rf.run_repair(acc, 1, dna, 2, [], True, 1000)
    rec = {"start": 1, "dna": dna, "vt": [], "indel": True, "heap": 1000}
    good = rf.case_of(1, rec, o, w=[], es=[])
    bad = copy.deepcopy(good)
    bad["cands"] = bad["cands"][::-1]
    v = rf.validate(ctx, [{"k": 2, "live": live}], [good, bad], "st4.json")
    expect("Trace_Repair/candidate-order", v[1], v[2])
    # 5. ArcRemoval trace: claim another arc was removed
    from vlib.props import c19
    a = impl.accessor(live)
    lm = dsw.accessor_to_latter_map(a)
    step, _ = c19.one_step(2, a, lm, True, True)
    bad = copy.deepcopy(step)
    bad["removed"] = [2, 8] if step["removed"] != [2, 8] else [2, 11]
    v = c19.validate(ctx, [step, bad], "st5.json")
    expect("Trace_ArcRemoval/removed-arc", v[1], v[2])
    # 6. Library trace: an argument digest changes over a call / a result differs from the memo
    ev = {"fn": "obtain_vertices", "param": "-", "sig": "s1", "res": "ok:aa", "verbose": False, "inplace": False, "args": [1], "before": ["x", "y"], "after": ["x", "y"]}
    ev2 = dict(ev, after=["x", "z"])
    ev3 = dict(ev, res="ok:bb", verbose=True)
    path = os.path.join(ctx.workdir, "st6.json")
    with open(path, "w") as f:
        json.dump({"fresh": [{"sig": "s1", "res": "ok:aa"}], "hists": [[ev, ev], [ev, ev2], [ev, ev3]]}, f)
    r = ctx.tlc("Trace_Library", "Trace.cfg", env={"TRACE_FILE": path}, workers=2, timeout=300)
    got = {x["hid"]: x["verdict"] for x in r.records if "hid" in x}
    expect("Trace_Library/frame", got[1], got[2])
    expect("Trace_Library/memo", got[1], got[3])
    # 7. tick hooks: the scan budget gives a deterministic verdict; with the sink removed the watchdog still ends the call
    from dsw import _verif

    def spin():
        n = 0
        while True:
            n += 1
            if _verif.ON:
                _verif.tick("rep_scan", location=0)

    r1 = impl.call(spin, _budget=50, _alarm=5)
    prev = _verif.install(None)
    r2 = impl.call(spin, _budget=50, _alarm=2)
    _verif.install(prev)
    ok = r1["out"] == "budget" and "tick budget" in r1["msg"] and r2["out"] == "budget" and "watchdog" in r2["msg"]
    print("%-34s with-hook=%s without-hook=%s %s" % ("tick budget / watchdog", r1["msg"], r2["msg"], "OK" if ok else "FAILED"))
    if not ok:
        fails.append("ticks")
    tlc.cleanup(ctx.workdir)
    print("selftest:", "all bindings demonstrated" if not fails else "FAILED: %s" % fails)
    return 1 if fails else 0
