"""Check context: verdict bookkeeping, known findings, evidence and replay files."""
import hashlib
import json
import os
import sys
import time

from vlib import tlc

ROOT = tlc.ROOT
OUT = os.environ.get("VERIF_OUT") or ROOT          # self-tests against patched trees write elsewhere
EVID = os.path.join(OUT, "evidence")
REPL = os.path.join(OUT, "replays")
FINDINGS = os.path.join(ROOT, "known_findings.json")


class Machinery(Exception):
    """Framework problem: exit code 2, never a property verdict."""


def digest(obj):
    return hashlib.sha1(json.dumps(obj, sort_keys=True, default=str).encode()).hexdigest()[:16]


class Ctx(object):
    def __init__(self, pid, tier, seed):
        self.pid, self.tier, self.seed = pid, tier, seed
        self.t0 = time.time()
        self.states = 0
        self.transitions = 0
        self.traces = 0            # cases/traces of the implementation judged against the specification
        self.evaluations = 0
        self.nontrivial = set()
        self.samples = []
        self.violations = []       # dicts
        self.known_hits = {}       # finding index -> count
        self.divergences = []
        self.vacuous = 0
        self.notes = {}
        self.assumptions = []
        self.exhaustive = None
        self.tlc_runs = []
        self.workdir = tlc.new_workdir(pid)
        self.findings = load_findings()
        self.quick = tier == "quick"

    # ---- TLC ----
    def tlc(self, module, cfg, **kw):
        """Run TLC; account states/transitions; fail the run (machinery) on a spec-level violation unless told otherwise."""
        expect = kw.pop("expect_violation", False)
        spec_violation_ok = kw.pop("spec_violation_ok", False)
        kw.setdefault("workdir", self.workdir)
        r = tlc.run(module, cfg, expect_violation=expect or spec_violation_ok, **kw)
        self.states += r.distinct
        self.transitions += r.generated
        self.tlc_runs.append({"module": module, "cfg": os.path.basename(cfg), "distinct": r.distinct, "generated": r.generated,
                              "depth": r.depth, "wall_s": round(r.wall, 1), "violated": r.violated})
        if expect and not r.violated:
            raise Machinery("vacuity guard: %s/%s was expected to violate its witness invariant but did not" % (module, cfg))
        if r.violated and not (expect or spec_violation_ok):
            raise Machinery("specification-level invariant %s violated in %s/%s (the model is wrong or the design is):\n%s"
                            % (r.violated, module, cfg, r.trace[:3000]))
        return r

    def need_coverage(self, r, actions):
        miss = [a for a in actions if r.coverage.get(a, (0, 0))[1] == 0]
        if miss:
            raise Machinery("coverage hole: actions never taken: %s" % miss)

    # ---- verdicts ----
    def judged(self, n=1):
        self.traces += n
        self.evaluations += n

    def sample(self, case, limit=6):
        if len(self.samples) < limit:
            self.samples.append(case)

    def mark(self, key):
        """Record a distinct non-trivial case (by digest)."""
        self.nontrivial.add(key if isinstance(key, str) else digest(key))

    def violation(self, clause, case, expected=None, observed=None, features=None, kind=None):
        v = {"property": self.pid, "clause": clause, "kind": kind or clause, "case": case, "expected": expected,
             "observed": observed, "features": features or {}}
        idx = match_finding(self.findings, v)
        if idx is not None:
            self.known_hits[idx] = self.known_hits.get(idx, 0) + 1
            return False
        self.violations.append(v)
        return True

    def divergence(self, what, case=None):
        if len(self.divergences) < 50:
            self.divergences.append({"what": what, "case": case})

    # ---- end ----
    def finish(self, rule, extra=None):
        wall = time.time() - self.t0
        tlc.cleanup(self.workdir)
        os.makedirs(EVID, exist_ok=True)
        seen = set()
        lines = []
        for v in self.violations:
            d = digest([v["clause"], v["case"]])
            if d in seen:
                continue
            seen.add(d)
            if len(seen) > 25:
                break
            rp = os.path.join(REPL, self.pid)
            os.makedirs(rp, exist_ok=True)
            path = os.path.join(rp, d + ".json")
            with open(path, "w") as f:
                json.dump(v, f, indent=1, default=str)
            lines.append("VIOLATION property=%s replay=%s" % (self.pid, path))
            sys.stderr.write("  clause=%s expected=%s observed=%s\n" % (v["clause"], json.dumps(v["expected"], default=str)[:300],
                                                                     json.dumps(v["observed"], default=str)[:300]))
        for idx, n in sorted(self.known_hits.items()):
            f = self.findings[idx]
            print("KNOWN-FINDING: property=%s %s (%d cases this run)" % (self.pid, f["what"], n))
        cov = {
            "states": int(self.states), "transitions": int(self.transitions),
            "traces_validated_against_impl": int(self.traces),
            "samples": self.samples or [{"note": "no sample recorded"}],
            "evaluations": int(self.evaluations), "distinct_nontrivial": len(self.nontrivial),
            "rule": rule, "tlc_runs": self.tlc_runs, "vacuous": self.vacuous,
            "divergences": self.divergences, "known_finding_cases": {self.findings[i]["id"]: n for i, n in self.known_hits.items()},
        }
        if self.exhaustive is not None:
            cov["exhaustive"] = bool(self.exhaustive)
        cov.update(self.notes)
        if extra:
            cov.update(extra)
        ev = {"property_id": self.pid, "tier": self.tier, "seed": int(self.seed), "level": "model_checking", "coverage": cov,
              "assumptions": self.assumptions, "wall_s": round(wall, 2), "violations": len(seen)}
        with open(os.path.join(EVID, self.pid + ".json"), "w") as f:
            json.dump(ev, f, indent=1, default=str)
        for ln in lines:
            print(ln)
        print("%s %s: states=%d transitions=%d impl-cases=%d distinct-nontrivial=%d violations=%d known=%d wall=%.1fs"
              % (self.pid, self.tier, self.states, self.transitions, self.traces, len(self.nontrivial), len(seen),
                 sum(self.known_hits.values()), wall))
        return 1 if lines else 0


def load_findings():
    if not os.path.exists(FINDINGS):
        return []
    with open(FINDINGS) as f:
        data = json.load(f)
    return [x for x in data.get("findings", [])]


def match_finding(findings, v):
    """A violation is a known finding only if property, clause and every key of the entry's 'match' agree with the
    violation's features. 'fixed' entries never match."""
    for i, f in enumerate(findings):
        if f.get("status") != "known" or f.get("property") != v["property"]:
            continue
        if f.get("clause") != v["clause"]:
            continue
        feats = v.get("features") or {}
        if all(feats.get(k) == val for k, val in (f.get("match") or {}).items()):
            return i
    return None
