"""Shared binding for C02 and C04: run the real pipeline filter -> find_vertices -> connect_coding_graph -> encode ->
filter.valid on windows, record what happened, and let Trace_Pipe judge the record."""
import json
import os

import numpy

import dsw
from vlib import codingflow as cf
from vlib import impl
from vlib.core import Machinery
from vlib.props import c11, c12
from vlib.props.c03 import outcome, verts_of

_G = {}


def kmer(v, k):
    return "".join(impl.NT[(v // 4 ** (k - 1 - i)) % 4] for i in range(k))       # transport of an index as its k-mer string


def build_graph(src, cfg, mask, k, t):
    """-> (filter, gen_out, verts, accessor) running the real find_vertices / connect_coding_graph; cached per graph."""
    key = json.dumps([src, cfg, mask if src == "mask" else None, k, t])
    if key in _G:
        return _G[key]
    if src == "cfg":
        try:
            flt = c12.make_filter(cfg["k"], cfg["run"], cfg["gc"], cfg["motifs"])
        except Exception as e:  # noqa  a constructor stricter than the specification's: no graph, the case is vacuous
            res = (None, "constructor:" + type(e).__name__, [], None)
            _G[key] = res
            return res
    else:
        flt = c11.DocumentedFilter(c11.kmers_of(mask, k))
    r = impl.call(dsw.find_vertices, k, flt)
    if r["out"] != "ok":
        res = (flt, outcome(r), [], None)
    else:
        n = 4 ** k
        r2 = impl.call(dsw.connect_coding_graph, k, r["value"], t, _budget=6 * n + 24, _alarm=120)
        if r2["out"] != "ok":
            res = (flt, outcome(r2), [], None)
        else:
            res = (flt, "ok", verts_of(r2["value"][0], n), r2["value"][1])
    if len(_G) >= 4:          # keep only a few graphs alive: generated graphs are built, used and dropped, as a user session does
        _G.clear()
    _G[key] = res
    return res


def mix_table(n):
    return [[1, 3, 0, 2] if u % 2 == 0 else [3, 0, 2, 1] for u in range(n)]          # transport of MixTbl


def observe(g, start, msg, mode, bound, tk="id"):
    """One case: encode on the generated graph, then ask the real filter about every window and the whole strand."""
    flt, gen_out, verts, acc = build_graph(g["src"], g["cfg"], g["mask"], g["k"], g["t"])
    c = {"start": start, "msg": msg, "mode": mode, "tk": tk, "gen_out": gen_out, "verts": verts, "enc_out": "not-run", "strand": [], "ticks": 0,
         "fv_windows": [], "fv_strand": True, "fv_full": True, "ilive": []}
    if acc is None:
        return c
    c["ilive"] = impl.live_of(acc)
    nv = sum(1 for L in c["ilive"] if L)
    e = cf.run_encode(acc, start, msg, mode, 0, mix_table(len(acc)) if tk == "mix" else None, budget=len(msg) * nv + 2)
    c["enc_out"], c["strand"], c["ticks"] = e["enc_out"], e["strand"], e["ticks"]
    if e["enc_out"] == "ok":
        k = g["k"]
        full = kmer(start, k) + e["s"]
        c["fv_windows"] = [bool(flt.valid(full[i:i + k])) for i in range(len(full) - k + 1)]
        if g["src"] == "cfg":
            c["fv_strand"] = bool(flt.valid(e["s"], only_last=False))
            c["fv_full"] = bool(flt.valid(full, only_last=False))
    return c


def _obs_rec(rec):
    g = {"src": rec["src"], "cfg": rec["cfg"], "mask": rec["mask"], "k": rec["cfg"]["k"], "t": rec["t"]}
    if rec["src"] == "cfg" and not c12.float_guard(rec["cfg"]["k"], rec["cfg"]["gc"]):
        return None
    c = observe(g, rec["start"], rec["msg"], rec["mode"], rec["bound"], rec.get("tk", "id"))
    c["spec_strand"] = rec["strand"]
    return c


def flow_a(ctx, cfgs, mine):
    """TLC enumerates the inputs (MC_Pipe, invariants checked there), the real pipeline is observed on each, Trace_Pipe judges."""
    recs = []
    for cfg in cfgs:
        r = ctx.tlc("MC_Pipe", cfg, workers=16, timeout=3400, heap="14g", env={"VERIF_SLOT": str(ctx.seed % 991)})
        recs += r.records
    if len(recs) < 20000:
        raise Machinery("too few exported pipeline behaviours: %d" % len(recs))
    # group by graph so that TLC's retained set travels with the graph
    gidx, graphs = {}, []
    for rec in recs:
        key = json.dumps([rec["src"], rec["cfg"], rec["mask"], rec["t"]])
        if key not in gidx:
            graphs.append({"k": rec["cfg"]["k"], "src": rec["src"], "cfg": rec["cfg"], "mask": rec["mask"], "t": rec["t"], "ret": rec["ret"]})
            gidx[key] = len(graphs)
        rec["_g"] = gidx[key]
    recs.sort(key=lambda r: r["_g"])
    obs = impl.pmap(_obs_rec, recs, chunk=256)
    cases = []
    for rec, c in zip(recs, obs):
        if c is None:
            ctx.vacuous += 1
            continue
        c["g"] = rec["_g"]
        if c["enc_out"] == "ok" and c["strand"] != c.pop("spec_strand"):
            ctx.divergence("strand differs from the specification's encoder (judged on its own by Trace_Pipe)",
                           {"g": graphs[c["g"] - 1], "start": c["start"], "msg": c["msg"], "mode": c["mode"]})
        c.pop("spec_strand", None)
        cases.append(c)
    judge(ctx, graphs, cases, mine, "pipe_a.json", "A")
    return len(cases)


CHUNK = 100000


def _judge_chunk(ctx, graphs, cases, name):
    """One Trace_Pipe run over a chunk of cases; graph indices are remapped to the graphs the chunk uses."""
    used = sorted(set(c["g"] for c in cases))
    remap = {g: i + 1 for i, g in enumerate(used)}
    sub = [graphs[g - 1] for g in used]
    moved = [dict(c, g=remap[c["g"]]) for c in cases]
    path = os.path.join(ctx.workdir, name)
    with open(path, "w") as f:
        json.dump({"graphs": sub, "cases": moved}, f)
    r = ctx.tlc("Trace_Pipe", "Trace.cfg", env={"TRACE_FILE": path}, workers=16, timeout=3400, heap="14g")
    os.remove(path)
    got = {x["cid"]: x["verdict"] for x in r.records if "verdict" in x}
    if len(got) != len(cases):
        raise Machinery("trace validation returned %d verdicts for %d cases" % (len(got), len(cases)))
    return got


def judge(ctx, graphs, cases, mine, name, tag):
    got = {}
    for lo in range(0, len(cases), CHUNK):
        part = _judge_chunk(ctx, graphs, cases[lo:lo + CHUNK], "%s.%d" % (name, lo // CHUNK))
        for i, v in part.items():
            got[lo + i] = v
    for i, c in enumerate(cases, 1):
        v = got[i]
        if v == ["precondition-false"]:
            ctx.vacuous += 1
            continue
        ctx.judged()
        g = graphs[c["g"] - 1]
        if c["msg"]:
            ctx.mark(tag + json.dumps([c["g"], c["start"], c["msg"][:64], len(c["msg"]), c["mode"], c.get("tk", "id")]))
        for cl in v:
            if cl.startswith("machinery:"):
                raise Machinery("trace spec inconsistency: %s" % cl)
            if cl.startswith("conformance:"):
                ctx.divergence(cl)
            elif cl in mine:
                small = {"src": g["src"], "cfg": g["cfg"], "t": g["t"], "mask": g["mask"] if g["k"] <= 2 else "order %d (seeded)" % g["k"],
                         "start": c["start"], "msg": c["msg"][:80], "bits": len(c["msg"]), "mode": c["mode"], "enc_out": c["enc_out"],
                         "strand": impl.dna(c["strand"][:120]), "ticks": c["ticks"]}
                feats = {"run_equals_k": bool(g["src"] == "cfg" and g["cfg"]["run"] == g["cfg"]["k"])}
                ctx.violation(cl, small, "ok", cl, features=feats)
    return got
