"""Thin runner around TLC (tla2tools.jar): starts java directly, parses counts, verdict lines and coverage."""
import json
import os
import re
import shutil
import subprocess
import time
import uuid

ROOT = os.path.dirname(os.path.dirname(os.path.abspath(__file__)))
SPEC = os.path.join(ROOT, "spec")
WORK = os.path.join(ROOT, ".work")
JAR = "/opt/veriftools/tla/tla2tools.jar:/opt/veriftools/tla/CommunityModules-deps.jar"


class TLCError(Exception):
    """Machinery failure (parse error, crash, timeout) - never a property verdict."""


class TLCResult(object):
    def __init__(self):
        self.rc = None
        self.out = ""
        self.generated = 0
        self.distinct = 0
        self.depth = 0
        self.violated = None      # name of a violated invariant / property, if any
        self.records = []         # JSON records printed with PrintT(ToJson(..))
        self.coverage = {}        # action name -> (distinct, taken)
        self.wall = 0.0
        self.cmd = ""
        self.trace = ""           # counterexample text, if any


def new_workdir(tag):
    path = os.path.join(WORK, "%s-%s" % (tag, uuid.uuid4().hex[:8]))
    os.makedirs(path, exist_ok=True)
    return path


def cleanup(path):
    shutil.rmtree(path, ignore_errors=True)


_REC = re.compile(r'^"\{.*\}"$')


def parse_records(text):
    recs = []
    for line in text.splitlines():
        line = line.strip()
        if _REC.match(line):
            try:
                recs.append(json.loads(json.loads(line)))
            except ValueError:
                raise TLCError("unparsable record line: %r" % line[:200])
    return recs


def run(module, cfg, env=None, workers=16, timeout=900, coverage=False, simulate=None, depth=None,
        seed=None, heap="6g", workdir=None, expect_violation=False, extra=(), deadlock=False):
    """Run TLC on spec/<module>.tla with spec/<cfg> (or an absolute cfg path). Returns TLCResult.
    Raises TLCError on machinery failures. An invariant violation is reported in result.violated."""
    own = workdir is None
    wd = workdir or new_workdir(module)
    meta = os.path.join(wd, "meta-%s" % uuid.uuid4().hex[:6])
    cfg_path = cfg if os.path.isabs(cfg) else os.path.join(SPEC, cfg)
    cmd = ["java", "-Xmx" + heap, "-Xss512m", "-XX:+UseParallelGC", "-DTLA-Library=" + SPEC, "-cp", JAR, "tlc2.TLC",
           "-workers", str(workers), "-metadir", meta, "-noGenerateSpecTE", "-config", cfg_path]
    if coverage:
        cmd += ["-coverage", "1"]
    if simulate is not None:
        cmd += ["-simulate", simulate]
    if depth is not None:
        cmd += ["-depth", str(depth)]
    if seed is not None:
        cmd += ["-seed", str(seed)]
    if deadlock:
        cmd += ["-deadlock"]
    cmd += list(extra)
    cmd += [os.path.join(SPEC, module + ".tla")]
    e = dict(os.environ)
    e.update({k: str(v) for k, v in (env or {}).items()})
    e.pop("JAVA_TOOL_OPTIONS", None)
    res = TLCResult()
    res.cmd = " ".join(cmd)
    t0 = time.time()
    # stream the output: record lines are parsed as they arrive (exports reach hundreds of MB), everything else is kept as text
    import threading
    proc = subprocess.Popen(cmd, env=e, cwd=wd, stdout=subprocess.PIPE, stderr=subprocess.STDOUT)
    killed = []

    def _kill():
        killed.append(True)
        proc.kill()

    timer = threading.Timer(timeout, _kill)
    timer.start()
    other = []
    try:
        for raw in proc.stdout:
            line = raw.decode("utf-8", "replace").rstrip("\n")
            st = line.strip()
            if _REC.match(st):
                try:
                    res.records.append(json.loads(json.loads(st)))
                except ValueError:
                    raise TLCError("unparsable record line: %r" % st[:200])
            else:
                other.append(line)
        proc.wait()
    finally:
        timer.cancel()
        if proc.poll() is None:
            proc.kill()
    if killed:
        if own:
            cleanup(wd)
        raise TLCError("TLC timed out after %ss: %s %s" % (timeout, module, cfg))
    res.wall = time.time() - t0
    res.rc = proc.returncode
    out = "\n".join(other)
    res.out = out
    shutil.rmtree(meta, ignore_errors=True)
    if own:
        cleanup(wd)
    m = re.search(r"(\d+) states generated, (\d+) distinct states found", out)
    if m:
        res.generated, res.distinct = int(m.group(1)), int(m.group(2))
    m = re.search(r"The depth of the complete state graph search is (\d+)", out)
    if m:
        res.depth = int(m.group(1))
    m = re.search(r"Error: Invariant (\S+) is violated", out) or re.search(r"Error: Action property (\S+) is violated", out) \
        or re.search(r"Error: Temporal properties were violated", out)
    if m:
        res.violated = m.group(1) if m.groups() else "temporal"
        i = out.find("Error:")
        res.trace = out[i:i + 6000]
    if coverage:
        for cm in re.finditer(r"<(\w+) line \d+, col \d+ to line \d+, col \d+ of module (\w+)>: (\d+):(\d+)", out):
            name = cm.group(1)
            d, t = int(cm.group(3)), int(cm.group(4))
            od, ot = res.coverage.get(name, (0, 0))
            res.coverage[name] = (od + d, ot + t)
    bad = res.rc not in (0,) and res.violated is None
    if simulate is not None and res.rc == 0:
        bad = False
    if bad:
        tail = "\n".join(out.splitlines()[-40:])
        raise TLCError("TLC failed (rc=%s) on %s/%s:\n%s" % (res.rc, module, cfg, tail))
    if res.violated and not expect_violation:
        pass  # caller decides: a violated spec-level invariant is reported by the caller
    return res


def sany(module):
    p = subprocess.run(["java", "-DTLA-Library=" + SPEC, "-cp", JAR, "tla2sany.SANY", os.path.join(SPEC, module + ".tla")],
                       stdout=subprocess.PIPE, stderr=subprocess.STDOUT, cwd=SPEC, timeout=120)
    out = p.stdout.decode("utf-8", "replace")
    ok = p.returncode == 0 and "Semantic errors" not in out and "*** Errors" not in out and "Fatal" not in out
    return ok, out
